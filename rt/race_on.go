//go:build race

package verifrt

import "runtime"

//go:norace
func raceDisable() { runtime.RaceDisable() }

//go:norace
func raceEnable() { runtime.RaceEnable() }

const RaceEnabled = true

//go:norace
func RaceDisable() { runtime.RaceDisable() }

//go:norace
func RaceEnable() { runtime.RaceEnable() }
