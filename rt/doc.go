// Package verifrt is the verification runtime mounted (by build overlay only) as
// lunar/toolkit-core/verifrt.  See /verif/DESIGN.md §2.3.
package verifrt
