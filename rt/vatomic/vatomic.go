// Package vatomic is a drop-in replacement for the subset of sync/atomic the repository
// uses; every operation is a scheduling point under an active verifrt scheduler.
package vatomic

import (
	"sync/atomic"
	"unsafe"

	rt "lunar/toolkit-core/verifrt"
)

func r(p unsafe.Pointer) {
	if rt.Active() {
		rt.Point(rt.OpAtomicR, uintptr(p), nil)
	}
}
func w(p unsafe.Pointer) {
	if rt.Active() {
		rt.Point(rt.OpAtomicW, uintptr(p), nil)
	}
}

func AddInt32(a *int32, d int32) int32    { w(unsafe.Pointer(a)); return atomic.AddInt32(a, d) }
func AddInt64(a *int64, d int64) int64    { w(unsafe.Pointer(a)); return atomic.AddInt64(a, d) }
func AddUint32(a *uint32, d uint32) uint32 { w(unsafe.Pointer(a)); return atomic.AddUint32(a, d) }
func AddUint64(a *uint64, d uint64) uint64 { w(unsafe.Pointer(a)); return atomic.AddUint64(a, d) }
func LoadInt32(a *int32) int32            { r(unsafe.Pointer(a)); return atomic.LoadInt32(a) }
func LoadInt64(a *int64) int64            { r(unsafe.Pointer(a)); return atomic.LoadInt64(a) }
func LoadUint32(a *uint32) uint32         { r(unsafe.Pointer(a)); return atomic.LoadUint32(a) }
func LoadUint64(a *uint64) uint64         { r(unsafe.Pointer(a)); return atomic.LoadUint64(a) }
func StoreInt32(a *int32, v int32)        { w(unsafe.Pointer(a)); atomic.StoreInt32(a, v) }
func StoreInt64(a *int64, v int64)        { w(unsafe.Pointer(a)); atomic.StoreInt64(a, v) }
func StoreUint32(a *uint32, v uint32)     { w(unsafe.Pointer(a)); atomic.StoreUint32(a, v) }
func StoreUint64(a *uint64, v uint64)     { w(unsafe.Pointer(a)); atomic.StoreUint64(a, v) }
func SwapInt32(a *int32, v int32) int32   { w(unsafe.Pointer(a)); return atomic.SwapInt32(a, v) }
func SwapInt64(a *int64, v int64) int64   { w(unsafe.Pointer(a)); return atomic.SwapInt64(a, v) }
func CompareAndSwapInt32(a *int32, o, n int32) bool {
	w(unsafe.Pointer(a))
	return atomic.CompareAndSwapInt32(a, o, n)
}
func CompareAndSwapInt64(a *int64, o, n int64) bool {
	w(unsafe.Pointer(a))
	return atomic.CompareAndSwapInt64(a, o, n)
}
func CompareAndSwapUint32(a *uint32, o, n uint32) bool {
	w(unsafe.Pointer(a))
	return atomic.CompareAndSwapUint32(a, o, n)
}

type Bool struct{ v atomic.Bool }

func (b *Bool) Load() bool     { r(unsafe.Pointer(b)); return b.v.Load() }
func (b *Bool) Store(x bool)   { w(unsafe.Pointer(b)); b.v.Store(x) }
func (b *Bool) Swap(x bool) bool { w(unsafe.Pointer(b)); return b.v.Swap(x) }
func (b *Bool) CompareAndSwap(o, n bool) bool {
	w(unsafe.Pointer(b))
	return b.v.CompareAndSwap(o, n)
}

type Int32 struct{ v atomic.Int32 }

func (b *Int32) Load() int32       { r(unsafe.Pointer(b)); return b.v.Load() }
func (b *Int32) Store(x int32)     { w(unsafe.Pointer(b)); b.v.Store(x) }
func (b *Int32) Add(x int32) int32 { w(unsafe.Pointer(b)); return b.v.Add(x) }
func (b *Int32) Swap(x int32) int32 { w(unsafe.Pointer(b)); return b.v.Swap(x) }
func (b *Int32) CompareAndSwap(o, n int32) bool {
	w(unsafe.Pointer(b))
	return b.v.CompareAndSwap(o, n)
}

type Int64 struct{ v atomic.Int64 }

func (b *Int64) Load() int64       { r(unsafe.Pointer(b)); return b.v.Load() }
func (b *Int64) Store(x int64)     { w(unsafe.Pointer(b)); b.v.Store(x) }
func (b *Int64) Add(x int64) int64 { w(unsafe.Pointer(b)); return b.v.Add(x) }
func (b *Int64) Swap(x int64) int64 { w(unsafe.Pointer(b)); return b.v.Swap(x) }
func (b *Int64) CompareAndSwap(o, n int64) bool {
	w(unsafe.Pointer(b))
	return b.v.CompareAndSwap(o, n)
}

type Uint32 struct{ v atomic.Uint32 }

func (b *Uint32) Load() uint32        { r(unsafe.Pointer(b)); return b.v.Load() }
func (b *Uint32) Store(x uint32)      { w(unsafe.Pointer(b)); b.v.Store(x) }
func (b *Uint32) Add(x uint32) uint32 { w(unsafe.Pointer(b)); return b.v.Add(x) }

type Uint64 struct{ v atomic.Uint64 }

func (b *Uint64) Load() uint64        { r(unsafe.Pointer(b)); return b.v.Load() }
func (b *Uint64) Store(x uint64)      { w(unsafe.Pointer(b)); b.v.Store(x) }
func (b *Uint64) Add(x uint64) uint64 { w(unsafe.Pointer(b)); return b.v.Add(x) }

type Value struct{ v atomic.Value }

func (b *Value) Load() any        { r(unsafe.Pointer(b)); return b.v.Load() }
func (b *Value) Store(x any)      { w(unsafe.Pointer(b)); b.v.Store(x) }
func (b *Value) Swap(x any) any   { w(unsafe.Pointer(b)); return b.v.Swap(x) }
func (b *Value) CompareAndSwap(o, n any) bool {
	w(unsafe.Pointer(b))
	return b.v.CompareAndSwap(o, n)
}

type Pointer[T any] struct{ v atomic.Pointer[T] }

func (b *Pointer[T]) Load() *T   { r(unsafe.Pointer(b)); return b.v.Load() }
func (b *Pointer[T]) Store(x *T) { w(unsafe.Pointer(b)); b.v.Store(x) }
func (b *Pointer[T]) Swap(x *T) *T { w(unsafe.Pointer(b)); return b.v.Swap(x) }
func (b *Pointer[T]) CompareAndSwap(o, n *T) bool {
	w(unsafe.Pointer(b))
	return b.v.CompareAndSwap(o, n)
}
