// Package vos is a drop-in replacement for the subset of package os used by
// config/gateway_file_system.go.  Every call is a numbered fault point: the harness can make
// exactly the k-th call (and optionally a second, later one) fail with EIO.  Without a plan
// every function forwards to package os unchanged.
package vos

import (
	"io/fs"
	"os"
	"sync/atomic"
	"syscall"
)

type (
	FileInfo = os.FileInfo
	FileMode = os.FileMode
)

const ModePerm = os.ModePerm

var (
	calls  atomic.Int64
	failAt [2]atomic.Int64 // 1-based call numbers that fail; 0 = none
	log    atomic.Pointer[[]string]
)

// Reset clears the call counter and installs a fault plan (0 = no fault).
func Reset(k1, k2 int64) {
	calls.Store(0)
	failAt[0].Store(k1)
	failAt[1].Store(k2)
	l := []string{}
	log.Store(&l)
	Names = nil
}

// Calls returns how many fault points were passed since Reset.
func Calls() int64 { return calls.Load() }

// Trace returns the labels of the fault points passed since Reset.
func Trace() []string {
	if p := log.Load(); p != nil {
		return *p
	}
	return nil
}

// Names is the path argument of every fault point passed since Reset (diagnostics only).
var Names []string

func point(label string) error { return pointN(label, "") }

func pointN(label, name string) error {
	Names = append(Names, label+" "+name)
	n := calls.Add(1)
	if p := log.Load(); p != nil {
		*p = append(*p, label)
	}
	if n == failAt[0].Load() || n == failAt[1].Load() {
		return &fs.PathError{Op: "verif-fault:" + label, Path: "", Err: syscall.EIO}
	}
	return nil
}

func IsNotExist(err error) bool { return os.IsNotExist(err) }

func Remove(name string) error {
	if err := pointN("Remove", name); err != nil {
		return err
	}
	return os.Remove(name)
}

func MkdirAll(path string, perm FileMode) error {
	if err := pointN("MkdirAll", path); err != nil {
		return err
	}
	return os.MkdirAll(path, perm)
}

func Stat(name string) (FileInfo, error) {
	if err := pointN("Stat", name); err != nil {
		return nil, err
	}
	return os.Stat(name)
}

// File wraps *os.File so that Write / Read / Close are fault points too.
type File struct{ f *os.File }

func Create(name string) (*File, error) {
	if err := pointN("Create", name); err != nil {
		return nil, err
	}
	f, err := os.Create(name)
	if err != nil {
		return nil, err
	}
	return &File{f}, nil
}

func Open(name string) (*File, error) {
	if err := pointN("Open", name); err != nil {
		return nil, err
	}
	f, err := os.Open(name)
	if err != nil {
		return nil, err
	}
	return &File{f}, nil
}

func (f *File) Write(b []byte) (int, error) {
	if err := point("Write"); err != nil {
		// a failed write may leave a partial file behind: write half of the content
		n, _ := f.f.Write(b[:len(b)/2])
		return n, err
	}
	return f.f.Write(b)
}

func (f *File) Read(b []byte) (int, error) { return f.f.Read(b) }

func (f *File) Close() error {
	if f == nil || f.f == nil {
		return nil
	}
	return f.f.Close()
}

// ReadFile / WriteFile: fault points of the reload path (YAML loader, generated files).
func ReadFile(name string) ([]byte, error) {
	if err := pointN("ReadFile", name); err != nil {
		return nil, err
	}
	return os.ReadFile(name)
}

func WriteFile(name string, data []byte, perm FileMode) error {
	if err := pointN("WriteFile", name); err != nil {
		// a failed write leaves half of the content behind
		_ = os.WriteFile(name, data[:len(data)/2], perm)
		return err
	}
	return os.WriteFile(name, data, perm)
}

// ---- the rest of the os surface a maintainer's change to the update path may plausibly use,
// so that such a change still builds under the shim (each call is a fault point as well) ----

const (
	O_RDONLY = os.O_RDONLY
	O_WRONLY = os.O_WRONLY
	O_RDWR   = os.O_RDWR
	O_APPEND = os.O_APPEND
	O_CREATE = os.O_CREATE
	O_EXCL   = os.O_EXCL
	O_SYNC   = os.O_SYNC
	O_TRUNC  = os.O_TRUNC

	PathSeparator = os.PathSeparator
)

type (
	DirEntry  = os.DirEntry
	PathError = os.PathError
)

var (
	ErrNotExist   = os.ErrNotExist
	ErrExist      = os.ErrExist
	ErrPermission = os.ErrPermission
)

func IsExist(err error) bool            { return os.IsExist(err) }
func IsPermission(err error) bool       { return os.IsPermission(err) }
func Getenv(k string) string            { return os.Getenv(k) }
func Setenv(k, v string) error          { return os.Setenv(k, v) }
func LookupEnv(k string) (string, bool) { return os.LookupEnv(k) }
func TempDir() string                   { return os.TempDir() }
func Getwd() (string, error)            { return os.Getwd() }

func OpenFile(name string, flag int, perm FileMode) (*File, error) {
	if err := pointN("OpenFile", name); err != nil {
		return nil, err
	}
	f, err := os.OpenFile(name, flag, perm)
	if err != nil {
		return nil, err
	}
	return &File{f}, nil
}

func Rename(oldpath, newpath string) error {
	if err := pointN("Rename", newpath); err != nil {
		return err
	}
	return os.Rename(oldpath, newpath)
}

func RemoveAll(path string) error {
	if err := pointN("RemoveAll", path); err != nil {
		return err
	}
	return os.RemoveAll(path)
}

func Mkdir(name string, perm FileMode) error {
	if err := pointN("Mkdir", name); err != nil {
		return err
	}
	return os.Mkdir(name, perm)
}

func MkdirTemp(dir, pattern string) (string, error) {
	if err := pointN("MkdirTemp", dir); err != nil {
		return "", err
	}
	return os.MkdirTemp(dir, pattern)
}

func CreateTemp(dir, pattern string) (*File, error) {
	if err := pointN("CreateTemp", dir); err != nil {
		return nil, err
	}
	f, err := os.CreateTemp(dir, pattern)
	if err != nil {
		return nil, err
	}
	return &File{f}, nil
}

func ReadDir(name string) ([]DirEntry, error) {
	if err := pointN("ReadDir", name); err != nil {
		return nil, err
	}
	return os.ReadDir(name)
}

func Lstat(name string) (FileInfo, error) {
	if err := pointN("Lstat", name); err != nil {
		return nil, err
	}
	return os.Lstat(name)
}

func Truncate(name string, size int64) error {
	if err := pointN("Truncate", name); err != nil {
		return err
	}
	return os.Truncate(name, size)
}

func Chmod(name string, mode FileMode) error { return os.Chmod(name, mode) }

func (f *File) WriteString(s string) (int, error) { return f.Write([]byte(s)) }
func (f *File) Name() string                      { return f.f.Name() }
func (f *File) Stat() (FileInfo, error)           { return f.f.Stat() }
func (f *File) Seek(off int64, whence int) (int64, error) {
	return f.f.Seek(off, whence)
}

func (f *File) Sync() error {
	if err := point("Sync"); err != nil {
		return err
	}
	return f.f.Sync()
}

func (f *File) Truncate(size int64) error {
	if err := point("FileTruncate"); err != nil {
		return err
	}
	return f.f.Truncate(size)
}
