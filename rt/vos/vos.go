// Package vos is filled in by the C08 fault engine (see fault.go).
package vos
