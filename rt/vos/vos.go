// Package vos is a drop-in replacement for the subset of package os used by
// config/gateway_file_system.go.  Every call is a numbered fault point: the harness can make
// exactly the k-th call (and optionally a second, later one) fail with EIO.  Without a plan
// every function forwards to package os unchanged.
package vos

import (
	"io/fs"
	"os"
	"sync/atomic"
	"syscall"
)

type (
	FileInfo = os.FileInfo
	FileMode = os.FileMode
)

const ModePerm = os.ModePerm

var (
	calls  atomic.Int64
	failAt [2]atomic.Int64 // 1-based call numbers that fail; 0 = none
	log    atomic.Pointer[[]string]
)

// Reset clears the call counter and installs a fault plan (0 = no fault).
func Reset(k1, k2 int64) {
	calls.Store(0)
	failAt[0].Store(k1)
	failAt[1].Store(k2)
	l := []string{}
	log.Store(&l)
	Names = nil
}

// Calls returns how many fault points were passed since Reset.
func Calls() int64 { return calls.Load() }

// Trace returns the labels of the fault points passed since Reset.
func Trace() []string {
	if p := log.Load(); p != nil {
		return *p
	}
	return nil
}

// Names is the path argument of every fault point passed since Reset (diagnostics only).
var Names []string

func point(label string) error { return pointN(label, "") }

func pointN(label, name string) error {
	Names = append(Names, label+" "+name)
	n := calls.Add(1)
	if p := log.Load(); p != nil {
		*p = append(*p, label)
	}
	if n == failAt[0].Load() || n == failAt[1].Load() {
		return &fs.PathError{Op: "verif-fault:" + label, Path: "", Err: syscall.EIO}
	}
	return nil
}

func IsNotExist(err error) bool { return os.IsNotExist(err) }

func Remove(name string) error {
	if err := pointN("Remove", name); err != nil {
		return err
	}
	return os.Remove(name)
}

func MkdirAll(path string, perm FileMode) error {
	if err := pointN("MkdirAll", path); err != nil {
		return err
	}
	return os.MkdirAll(path, perm)
}

func Stat(name string) (FileInfo, error) {
	if err := pointN("Stat", name); err != nil {
		return nil, err
	}
	return os.Stat(name)
}

// File wraps *os.File so that Write / Read / Close are fault points too.
type File struct{ f *os.File }

func Create(name string) (*File, error) {
	if err := pointN("Create", name); err != nil {
		return nil, err
	}
	f, err := os.Create(name)
	if err != nil {
		return nil, err
	}
	return &File{f}, nil
}

func Open(name string) (*File, error) {
	if err := pointN("Open", name); err != nil {
		return nil, err
	}
	f, err := os.Open(name)
	if err != nil {
		return nil, err
	}
	return &File{f}, nil
}

func (f *File) Write(b []byte) (int, error) {
	if err := point("Write"); err != nil {
		// a failed write may leave a partial file behind: write half of the content
		n, _ := f.f.Write(b[:len(b)/2])
		return n, err
	}
	return f.f.Write(b)
}

func (f *File) Read(b []byte) (int, error) { return f.f.Read(b) }

func (f *File) Close() error {
	if f == nil || f.f == nil {
		return nil
	}
	return f.f.Close()
}

// ReadFile / WriteFile: fault points of the reload path (YAML loader, generated files).
func ReadFile(name string) ([]byte, error) {
	if err := pointN("ReadFile", name); err != nil {
		return nil, err
	}
	return os.ReadFile(name)
}

func WriteFile(name string, data []byte, perm FileMode) error {
	if err := pointN("WriteFile", name); err != nil {
		// a failed write leaves half of the content behind
		_ = os.WriteFile(name, data[:len(data)/2], perm)
		return err
	}
	return os.WriteFile(name, data, perm)
}
