// Package vsync is a drop-in replacement for the subset of package sync the repository
// uses.  Outside an exploration every type behaves exactly like its sync counterpart;
// under an active verifrt scheduler every operation is a scheduling point and blocking
// is modelled (a goroutine parked at Lock is enabled only while the mutex is free), so no
// goroutine ever blocks natively on a lock another parked goroutine holds.
package vsync

import (
	"sync"
	"sync/atomic"
	"unsafe"

	rt "lunar/toolkit-core/verifrt"
)

type Locker = sync.Locker

// ---- Mutex ----------------------------------------------------------------------------

type Mutex struct {
	mu   sync.Mutex
	held atomic.Int32
}

func (m *Mutex) Lock() {
	if rt.Active() {
		rt.Point(rt.OpLock, uintptr(unsafe.Pointer(m)), func() bool { return m.held.Load() == 0 })
	}
	m.mu.Lock()
	m.held.Store(1)
}

func (m *Mutex) TryLock() bool {
	if rt.Active() {
		rt.Point(rt.OpLock, uintptr(unsafe.Pointer(m)), nil)
	}
	if m.mu.TryLock() {
		m.held.Store(1)
		return true
	}
	return false
}

func (m *Mutex) Unlock() {
	m.held.Store(0)
	m.mu.Unlock()
	if rt.Active() {
		rt.Point(rt.OpUnlocked, uintptr(unsafe.Pointer(m)), nil)
	}
}

// ---- RWMutex --------------------------------------------------------------------------

type RWMutex struct {
	mu      sync.RWMutex
	writer  atomic.Int32
	readers atomic.Int32
}

func (m *RWMutex) Lock() {
	if rt.Active() {
		rt.Point(rt.OpLock, uintptr(unsafe.Pointer(m)), func() bool { return m.writer.Load() == 0 && m.readers.Load() == 0 })
	}
	m.mu.Lock()
	m.writer.Store(1)
}

func (m *RWMutex) TryLock() bool {
	if rt.Active() {
		rt.Point(rt.OpLock, uintptr(unsafe.Pointer(m)), nil)
	}
	if m.mu.TryLock() {
		m.writer.Store(1)
		return true
	}
	return false
}

func (m *RWMutex) Unlock() {
	m.writer.Store(0)
	m.mu.Unlock()
	if rt.Active() {
		rt.Point(rt.OpUnlocked, uintptr(unsafe.Pointer(m)), nil)
	}
}

func (m *RWMutex) RLock() {
	if rt.Active() {
		rt.Point(rt.OpRLock, uintptr(unsafe.Pointer(m)), func() bool { return m.writer.Load() == 0 })
	}
	m.mu.RLock()
	m.readerDelta(1)
}

// readerDelta updates the scheduler's mirror of the reader count.  The update is hidden
// from the race detector: an atomic read-modify-write would order two readers' critical
// sections, an edge the real RWMutex does not provide (it would hide reader/reader races).
//
//go:norace
func (m *RWMutex) readerDelta(d int32) {
	rt.RaceDisable()
	m.readers.Add(d)
	rt.RaceEnable()
}


func (m *RWMutex) TryRLock() bool {
	if rt.Active() {
		rt.Point(rt.OpRLock, uintptr(unsafe.Pointer(m)), nil)
	}
	if m.mu.TryRLock() {
		m.readerDelta(1)
		return true
	}
	return false
}

func (m *RWMutex) RUnlock() {
	m.readerDelta(-1)
	m.mu.RUnlock()
	if rt.Active() {
		rt.Point(rt.OpRUnlocked, uintptr(unsafe.Pointer(m)), nil)
	}
}

type rlocker RWMutex

func (r *rlocker) Lock()   { (*RWMutex)(r).RLock() }
func (r *rlocker) Unlock() { (*RWMutex)(r).RUnlock() }

func (m *RWMutex) RLocker() Locker { return (*rlocker)(m) }

// ---- WaitGroup ------------------------------------------------------------------------

type WaitGroup struct {
	wg sync.WaitGroup
	n  atomic.Int64
}

func (w *WaitGroup) Add(delta int) {
	if rt.Active() {
		rt.Point(rt.OpWgAdd, uintptr(unsafe.Pointer(w)), nil)
	}
	// mirror for the scheduler, hidden from the race detector (the real WaitGroup below
	// provides the program's own ordering)
	rt.RaceDisable()
	w.n.Add(int64(delta))
	rt.RaceEnable()
	w.wg.Add(delta) // panics on a negative counter exactly like the original
}

func (w *WaitGroup) Done() { w.Add(-1) }

func (w *WaitGroup) Wait() {
	if rt.Active() {
		rt.Point(rt.OpWgWait, uintptr(unsafe.Pointer(w)), func() bool { return w.n.Load() <= 0 })
	}
	w.wg.Wait()
}

func (w *WaitGroup) Go(f func()) {
	w.Add(1)
	go func() {
		defer w.Done()
		f()
	}()
}

// ---- Once -----------------------------------------------------------------------------

type Once struct {
	done    atomic.Uint32
	running atomic.Int32
	m       sync.Mutex
}

func (o *Once) Do(f func()) {
	if o.done.Load() == 1 {
		return
	}
	if rt.Active() {
		rt.Point(rt.OpOnce, uintptr(unsafe.Pointer(o)), func() bool { return o.running.Load() == 0 })
		if o.done.Load() == 1 {
			return
		}
		o.running.Store(1)
		defer func() {
			o.done.Store(1)
			o.running.Store(0)
		}()
		f()
		return
	}
	o.m.Lock()
	defer o.m.Unlock()
	if o.done.Load() == 0 {
		defer o.done.Store(1)
		f()
	}
}

func OnceFunc(f func()) func() {
	var once Once
	return func() { once.Do(f) }
}

// ---- Map ------------------------------------------------------------------------------

type Map struct {
	m sync.Map
}

func (m *Map) pt() {
	if rt.Active() {
		rt.Point(rt.OpMap, uintptr(unsafe.Pointer(m)), nil)
	}
}

func (m *Map) Load(key any) (any, bool)        { m.pt(); return m.m.Load(key) }
func (m *Map) Store(key, value any)            { m.pt(); m.m.Store(key, value) }
func (m *Map) Delete(key any)                  { m.pt(); m.m.Delete(key) }
func (m *Map) Clear()                          { m.pt(); m.m.Clear() }
func (m *Map) Range(f func(k, v any) bool)     { m.pt(); m.m.Range(f) }
func (m *Map) Swap(k, v any) (any, bool)       { m.pt(); return m.m.Swap(k, v) }
func (m *Map) LoadAndDelete(k any) (any, bool) { m.pt(); return m.m.LoadAndDelete(k) }
func (m *Map) LoadOrStore(k, v any) (any, bool) {
	m.pt()
	return m.m.LoadOrStore(k, v)
}
func (m *Map) CompareAndSwap(k, o, n any) bool { m.pt(); return m.m.CompareAndSwap(k, o, n) }
func (m *Map) CompareAndDelete(k, o any) bool  { m.pt(); return m.m.CompareAndDelete(k, o) }

// ---- Pool / Cond: pass-through (not used by the repository today; kept for mutated trees)

type Pool = sync.Pool
type Cond = sync.Cond

func NewCond(l Locker) *Cond { return sync.NewCond(l) }
