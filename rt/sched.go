package verifrt

import (
	"runtime"
	"sync/atomic"
)

// Op kinds published at scheduling points.
const (
	OpLock      = "Lock"
	OpRLock     = "RLock"
	OpUnlocked  = "Unlocked"  // point *after* Unlock
	OpRUnlocked = "RUnlocked" // point *after* RUnlock
	OpWgAdd     = "WgAdd"
	OpWgWait    = "WgWait"
	OpOnce      = "Once"
	OpMap       = "Map"
	OpAtomicR   = "AtomicLoad"
	OpAtomicW   = "AtomicStore"
	OpHarness   = "Harness"
	OpStart     = "Start"
	OpFault     = "Fault"
)

// ParkReq is what a goroutine publishes when it parks at a scheduling point.
type ParkReq struct {
	GID     int64 // runtime goroutine id (creation order is deterministic per schedule)
	Name    string
	Op      string
	Obj     uintptr
	Label   string
	Enabled func() bool // nil = always enabled
	wake    chan struct{}
}

// Sched is one execution's scheduler state.  Atomics and channels only (race-oracle rule).
type Sched struct {
	Reqs   chan *ParkReq
	kill   atomic.Bool
	Live   atomic.Int64 // goroutines that have parked at least once and not yet exited
	Points atomic.Int64
	exempt int64 // goroutine id of the controller: its own sync operations are never scheduled
}

var cur atomic.Pointer[Sched]

// Activate installs s as the scheduler of the current execution.
//
//go:norace
func Activate() *Sched {
	s := &Sched{Reqs: make(chan *ParkReq, 4096), exempt: goid()}
	cur.Store(s)
	return s
}

//go:norace
func Deactivate() { cur.Store(nil) }

//go:norace
func Active() bool { return cur.Load() != nil }

// Kill switches to kill mode: every goroutine reaching (or released from) a point exits.
//
//go:norace
func (s *Sched) Kill() { s.kill.Store(true) }

//go:norace
func (s *Sched) Killing() bool { return s.kill.Load() }

// Release lets the goroutine parked with r continue.
//
//go:norace
func (s *Sched) Release(r *ParkReq) {
	raceDisable()
	r.wake <- struct{}{}
	raceEnable()
}

type gstate struct {
	name string
}

// Point is a scheduling point: publish (op,obj) and park until the controller releases us.
// Outside an exploration (no active scheduler) it is free.
//
//go:norace
func Point(op string, obj uintptr, enabled func() bool) {
	PointL(op, obj, "", enabled)
}

//go:norace
func PointL(op string, obj uintptr, label string, enabled func() bool) {
	s := cur.Load()
	if s == nil {
		return
	}
	gid := goid()
	if gid == s.exempt {
		return
	}
	if s.kill.Load() {
		exitNow(s)
	}
	r := &ParkReq{GID: gid, Op: op, Obj: obj, Label: label, Enabled: enabled, wake: make(chan struct{})}
	s.Points.Add(1)
	raceDisable()
	s.Reqs <- r
	<-r.wake
	raceEnable()
	if s.kill.Load() {
		exitNow(s)
	}
}

//go:norace
func exitNow(s *Sched) {
	runtime.Goexit()
}

// goid parses the current goroutine's id from its stack header ("goroutine 123 [").
//
//go:norace
func goid() int64 {
	var buf [40]byte
	n := runtime.Stack(buf[:], false)
	var id int64
	for i := len("goroutine "); i < n; i++ {
		c := buf[i]
		if c < '0' || c > '9' {
			break
		}
		id = id*10 + int64(c-'0')
	}
	return id
}

// GoID exposes the goroutine id to harnesses (naming harness goroutines).
//
//go:norace
func GoID() int64 { return goid() }

// Reactivate re-installs a scheduler that was temporarily deactivated (oracle / teardown code
// of the harness runs with scheduling points switched off).
//
//go:norace
func Reactivate(s *Sched) { cur.Store(s) }
