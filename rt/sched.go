package verifrt

import (
	"runtime"
	"sync/atomic"
)

// Op kinds published at scheduling points.
const (
	OpLock      = "Lock"
	OpRLock     = "RLock"
	OpUnlocked  = "Unlocked"  // point *after* Unlock
	OpRUnlocked = "RUnlocked" // point *after* RUnlock
	OpWgAdd     = "WgAdd"
	OpWgWait    = "WgWait"
	OpOnce      = "Once"
	OpMap       = "Map"
	OpAtomicR   = "AtomicLoad"
	OpAtomicW   = "AtomicStore"
	OpHarness   = "Harness"
	OpStart     = "Start"
	OpFault     = "Fault"
)

// ParkReq is what a goroutine publishes when it parks at a scheduling point.
type ParkReq struct {
	GID     int64 // runtime goroutine id (creation order is deterministic per schedule)
	Name    string
	Op      string
	Obj     uintptr
	Label   string
	Enabled func() bool // nil = always enabled
	wake    chan struct{}
}

// Sched is one execution's scheduler state.  Atomics and channels only (race-oracle rule).
type Sched struct {
	Reqs   chan *ParkReq
	kill   atomic.Bool
	Live   atomic.Int64 // goroutines that have parked at least once and not yet exited
	Points atomic.Int64
	exempt int64 // goroutine id of the controller: its own sync operations are never scheduled
	// focus: if non-empty, only sync operations performed by functions whose qualified name
	// starts with one of these prefixes are scheduling decisions; all other operations proceed
	// without parking as long as they are enabled (they still park when they would block).
	focus  []string
	fcKeys [2048]atomic.Uintptr
	fcVals [2048]atomic.Uint32 // 0 empty, 1 focus, 2 not focus, 3 runtime frame (skip)
}

// SetFocus restricts scheduling decisions to call sites in the given packages.
//
//go:norace
func (s *Sched) SetFocus(prefixes []string) { s.focus = prefixes }

// lock-free pc -> class cache (goroutines woken by the same timer instant run concurrently
// until their next park, so a plain map is not safe here)
//
//go:norace
func (s *Sched) fcGet(pc uintptr) uint32 {
	h := (pc >> 2) % uintptr(len(s.fcKeys))
	for i := 0; i < 16; i++ {
		k := s.fcKeys[(h+uintptr(i))%uintptr(len(s.fcKeys))].Load()
		if k == pc {
			return s.fcVals[(h+uintptr(i))%uintptr(len(s.fcKeys))].Load()
		}
		if k == 0 {
			return 0
		}
	}
	return 0
}

//go:norace
func (s *Sched) fcPut(pc uintptr, v uint32) {
	h := (pc >> 2) % uintptr(len(s.fcKeys))
	for i := 0; i < 16; i++ {
		idx := (h + uintptr(i)) % uintptr(len(s.fcKeys))
		if s.fcKeys[idx].CompareAndSwap(0, pc) || s.fcKeys[idx].Load() == pc {
			s.fcVals[idx].Store(v)
			return
		}
	}
}

//go:norace
func (s *Sched) inFocus() bool {
	if len(s.focus) == 0 {
		return true
	}
	var pcs [12]uintptr
	n := runtime.Callers(3, pcs[:])
	// the first frame outside the verification runtime is the repository call site
	for i := 0; i < n; i++ {
		pc := pcs[i]
		c := s.fcGet(pc)
		if c == 0 {
			name := ""
			if fn := runtime.FuncForPC(pc - 1); fn != nil {
				name = fn.Name()
			}
			c = 2
			if hasPrefix(name, "lunar/toolkit-core/verifrt") {
				c = 3
			} else {
				for _, p := range s.focus {
					if hasPrefix(name, p) {
						c = 1
					}
				}
			}
			s.fcPut(pc, c)
		}
		switch c {
		case 1:
			return true
		case 2:
			return false
		}
	}
	return true
}

//go:norace
func hasPrefix(s, p string) bool { return len(s) >= len(p) && s[:len(p)] == p }

var cur atomic.Pointer[Sched]

// Activate installs s as the scheduler of the current execution.
//
//go:norace
func Activate() *Sched {
	s := &Sched{Reqs: make(chan *ParkReq, 4096), exempt: goid()}
	cur.Store(s)
	return s
}

//go:norace
func Deactivate() { cur.Store(nil) }

//go:norace
func Active() bool { return cur.Load() != nil }

// Kill switches to kill mode: every goroutine reaching (or released from) a point exits.
//
//go:norace
func (s *Sched) Kill() { s.kill.Store(true) }

//go:norace
func (s *Sched) Killing() bool { return s.kill.Load() }

// Release lets the goroutine parked with r continue.
//
//go:norace
func (s *Sched) Release(r *ParkReq) {
	raceDisable()
	r.wake <- struct{}{}
	raceEnable()
}

type gstate struct {
	name string
}

// Point is a scheduling point: publish (op,obj) and park until the controller releases us.
// Outside an exploration (no active scheduler) it is free.
//
//go:norace
func Point(op string, obj uintptr, enabled func() bool) {
	PointL(op, obj, "", enabled)
}

//go:norace
func PointL(op string, obj uintptr, label string, enabled func() bool) {
	s := cur.Load()
	if s == nil {
		return
	}
	gid := goid()
	if gid == s.exempt {
		return
	}
	if s.kill.Load() {
		exitNow(s)
	}
	if len(s.focus) > 0 && op != OpStart && op != OpHarness && (enabled == nil || enabled()) && !s.inFocus() {
		return // not a scheduling decision: proceed (the operation cannot block right now)
	}
	r := &ParkReq{GID: gid, Op: op, Obj: obj, Label: label, Enabled: enabled, wake: make(chan struct{})}
	s.Points.Add(1)
	raceDisable()
	s.Reqs <- r
	<-r.wake
	raceEnable()
	if s.kill.Load() {
		exitNow(s)
	}
}

//go:norace
func exitNow(s *Sched) {
	runtime.Goexit()
}

// goid parses the current goroutine's id from its stack header ("goroutine 123 [").
//
//go:norace
func goid() int64 {
	var buf [40]byte
	n := runtime.Stack(buf[:], false)
	var id int64
	for i := len("goroutine "); i < n; i++ {
		c := buf[i]
		if c < '0' || c > '9' {
			break
		}
		id = id*10 + int64(c-'0')
	}
	return id
}

// GoID exposes the goroutine id to harnesses (naming harness goroutines).
//
//go:norace
func GoID() int64 { return goid() }

// Reactivate re-installs a scheduler that was temporarily deactivated (oracle / teardown code
// of the harness runs with scheduling points switched off).
//
//go:norace
func Reactivate(s *Sched) { cur.Store(s) }
