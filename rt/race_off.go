//go:build !race

package verifrt

func raceDisable() {}
func raceEnable()  {}

const RaceEnabled = false

// RaceDisable / RaceEnable are used by the controller around its own hand-offs.
func RaceDisable() {}
func RaceEnable()  {}
