#!/usr/bin/env python3
"""Generates /verif/MANIFEST.json from the table below (keeps it schema-valid)."""
import json, sys
ALL = ["C%02d" % i for i in range(1, 21)]
CHECKS = {
 "C07": dict(level="exploration", engine="seqx-product", design="§3 C07",
   technique="bounded-exhaustive enumeration of all action sequences (length<=4/5 over an 11/6-letter alphabet) through the real fold, checked against the statement",
   text="Every request/response action sequence up to the bound is folded by the real routing.getSPOEReqActions/getSPOERespActions and the SPOE variables are compared with the statement (first early response unchanged; later-wins header union; no-op only if all no-ops; no-op never displaces). Exhaustive within the alphabet and length bound; says nothing about header maps / lengths outside it.",
   note="alphabet of 11 request and 6 response actions; HeadersToRemove not asserted; Go map semantics; SPOE library action container"),

 "C16": dict(level="exploration", engine="seqx-product", design="§3 C16",
   technique="bounded-exhaustive enumeration of JSON documents x exclusion sets x entry points through the real obfuscator, compared leaf by leaf with an independent path matcher",
   text="All JSON documents over keys {a,b} (colliding names at different depths), nesting depth <=2 plus depth-3 wrappers, arrays of length 1-2, times all exclusion sets of size <=2 from a 45-path universe, through Obfuscator.ObfuscateJSON (plain notation) and the HAR collector body path ($.request.body / $.response.body notation). Every leaf must be verbatim iff an exclusion lies on or above its path, else equal to its hash; structure preserved. Exhaustive within those bounds.",
   note="document shapes/leaf values outside the alphabet are not covered; encoding/json parses the output; hash reference is the obfuscator applied to the lone leaf"),
 "C20": dict(level="exploration", engine="seqx-product", design="§3 C20",
   technique="bounded-exhaustive enumeration of all boolean observation scripts x settings through the real watcher loop in a virtual-time bubble",
   text="Every boolean health-observation script up to length 10 (13 thorough) x 27 settings of (ConsecutiveN, MinStablePeriod, CooldownPeriod) is fed to the real StateChangeWatcher.run loop under testing/synctest virtual time; the recorded reactions are checked for strict alternation starting with 'unhealthy', >=N consecutive observations spanning the stable period before each, and silence during cool-down.",
   note="check interval fixed to 1s; predicate/callback durations zero; only-if reading (missing reactions are not violations); Go synctest virtual clock"),

 "C10": dict(level="exploration", engine="schedx", design="§3 C10",
   technique="stateless schedule exploration (preemption- and early-timer-bounded DFS over all interleavings) of the real queue + roll-over goroutine under a controlled scheduler, invariant oracle at every quiescent point",
   text="All interleavings (<=2 preemptions, <=1 early time step; 3/2 thorough) of 2-3 enqueuing goroutines, the queue's real window roll-over goroutine and TTL timers, on 5 queue-level and 2 plugin-level scenarios, in virtual time. At every quiescent point of every schedule: a live waiter is in the heap or granted (never stranded), a roll-over pass never ends with free quota and a live waiter, releases respect (priority, arrival), waiters <= queue size; at the end grants per aligned window <= quota and rejections only for queue-full or elapsed TTL.",
   note="scheduling granularity = sync operations (native channel ops are not split); scenarios listed in the harness; virtual time via testing/synctest; sync shim fidelity"),

 "C03": dict(level="exploration", engine="seqx-product", design="§3 C03",
   technique="bounded-exhaustive enumeration of flow sets x insertion orders x transactions through the real FilterTree/urltree against an independent pattern+constraint matcher",
   text="All flow sets of size <=2 over 17 URL patterns x 6 constraint kinds x {user, system} flows, in every insertion order, are loaded into the real streamfilter.FilterTree and queried with 960 transactions (URL shapes with extra/missing segments, methods, header, query, request/response status). Only-if: every selected flow's own filter accepts; if: every accepting flow is selected unless a more specific literal pattern is configured; order: selection identical for all load orders.",
   note="patterns/transactions outside the alphabet; header/query constraints asserted on the request side only; zero-tail wildcard match left open; reference matcher in harness/refurl"),
 "C13": dict(level="exploration", engine="seqx-product", design="§3 C13",
   technique="bounded-exhaustive enumeration of endpoint declaration sets x declaration orders x requests through BuildEndpointPolicyTree and the dispatcher against an independent matcher",
   text="All endpoint declaration sets of size <=3 over 42 (method, pattern) pairs in every declaration order are built with the real BuildEndpointPolicyTree; 80 requests are resolved through the dispatcher's getRemedies/getDiagnoses. Every applied remedy/diagnosis must come from a declaration with the request's method whose pattern matches, from the most specific reachable one; the normalised URL must be a declared matching pattern; path parameters must be the request's parts; the outcome must not depend on declaration order.",
   note="each endpoint carries a distinct remedy type; only-if reading; non-backtracking trie accepted (shadowed more-specific patterns are excused); patterns outside the alphabet not covered"),

 "C14": dict(level="exploration", engine="seqx-product", design="§3 C14",
   technique="bounded-exhaustive enumeration of URL patterns x method lists x instantiated requests; registered expressions (from a real Stream / policy config) evaluated as regexes against the engine's own match verdict",
   text="43 URL patterns (dotted hosts, host and path parameters, dotted parameter name, trailing wildcard, literals with each regex metacharacter) x method lists x every instantiation x 7 request methods. For flows a real Stream is loaded from YAML and the manager's buildHAProxyFlowsEndpointsRequest produces the expressions; for policies BuildHAProxyEndpointsRequest. Whenever the real FilterTree / EndpointPolicyTree matches (method, URL), some registered expression must match 'METHOD:::url' as an unanchored regex.",
   note="haproxy map_reg assumed to agree with Go RE2 on the generated fragment; standard HTTP methods only; one filter per engine"),

 "C09": dict(level="model_checking", engine="seqx-bfs+schedx", design="§3 C09",
   technique="explicit-state BFS over event histories of the real plugin (fresh instance + replay per transition, virtual time) against a grid-window reference counter; exhaustive allocation table; schedule exploration of concurrent first requests",
   text="For 28 configurations (allowed 1-3; W 1, 2, 7 s; allocation tables with every default behaviour) every history up to depth 6 (8 thorough) over requests of two remedies x four group header values and clock steps landing exactly on / 1 ns after grid boundaries is executed on the real StrategyBasedThrottlingPlugin; verdicts must equal the per-(remedy, group, aligned window) reference (bound + sequential exactness + isolation). The complete table allowed 1..300 x pct 1..100 checks the rounded-up share, and all schedules (<=2 preemptions) of three concurrent first requests check the bound under concurrency.",
   note="state key = implementation dump + reference + phase (merging argued sound because the dump holds every field TryToIncrement reads); window-size changes not in the alphabet; virtual time via synctest"),

 "C17": dict(level="exploration", engine="seqx-bfs", design="§3 C17",
   technique="explicit-state BFS over provider-status histories of two interleaved sequences through the real retry remedy (policy mode) and a real Stream with the Retry processor (flows mode), harness plays the client protocol",
   text="24 configurations (policy|flows x attempts 1-3 x cool-down 0-1 x multiplier 1-2); every history up to depth attempts+5 of provider statuses for two interleaved sequences plus clock steps (incl. beyond the state TTL in policy mode). Per logical call: retry instructions <= attempts, failure only after the attempts are used, out-of-condition statuses never retried, a call after a finished one starts afresh, sequences do not influence each other (reference is per sequence).",
   note="flows-mode retry condition realised by a Filter processor; flows alphabet has one in- and one out-of-condition status; one known finding (counter kept after a successful retry in flows mode)"),

 "C12": dict(level="model_checking", engine="seqx-bfs+schedx", design="§3 C12",
   technique="explicit-state BFS over request/response/clock histories of the real caching and response-based-throttling remedies (real MemoryCache with sleeper goroutines, virtual time); schedule exploration of concurrent stores and read-vs-expiry",
   text="For the caching remedy (size limit: two entries fit / all fit) and the throttling remedy (relative / absolute retry-after) every history up to depth 6 (7 thorough) over three keys differing in method / selected path parameter and clock steps of TTL-1ns, 1ns, 1s runs on the real plugins. Every answer from memory must equal a response shown earlier for the same key within its lifetime, a replayed relative retry-after must be reduced by exactly the elapsed time, the cache's actual content never exceeds the configured size; schedules (<=2 preemptions) cover two concurrent stores with one slot left and a reader racing the expiry sleeper.",
   note="safety only (misses are legal; hit counts in evidence); boundary instant t = s+ttl left open; 1 microsecond slack for absolute epoch values; state key = cache dump + live candidates + sub-second phase"),

 "C11": dict(level="model_checking", engine="seqx-bfs+schedx", design="§3 C11",
   technique="explicit-state BFS over transaction / reload / revert / clock histories of the real TxnPoliciesAccessor with its vacuum goroutines (virtual time); schedule exploration of request-vs-reload, reload-vs-reload and response-vs-vacuum",
   text="Every history up to depth 6 (8 thorough) of {request / response of two transaction slots, reload through a new policies file, revert, revert-diagnosis-free, clock steps 1/5/24/31 s} runs on the real accessor (real MapVacuum goroutines, files in a scratch dir, HAProxy = in-process RoundTripper). A look-up within 30 s of a transaction's first look-up must return the version it saw first; a transaction starting after a reload must get the newest. Schedules (<=2 preemptions) cover a first look-up racing a reload, two overlapping reloads with a transaction pinned in between, and a response at exactly 30 s racing the vacuum passes.",
   note="versions are recognised by a marker endpoint; state key = accessor dump (versions and pins relative to current) + slot ages; admin API always answers 200"),

 "C01": dict(level="model_checking", engine="seqx-bfs+schedx", design="§3 C01",
   technique="explicit-state BFS over request/clock histories through a real engine (Stream from generated quota+flow YAML) against a per-(quota, group) window reference; schedule exploration of concurrent requests",
   text="8 quota configurations (11 thorough): flat, grouped by header, parent/child hierarchy with own limit or allocation percentage, grouping on parent and/or child. Every history up to depth 5-6 of requests (child / parent-only URL x group header a|b|absent) and clock steps of 1 s and W runs through a real streams.Stream (quota loader, system flows, Limiter, GenerateResponse); each verdict must equal the reference (refused iff the own quota or an ancestor is full for its current window) and admissions per window never exceed max. Schedules (<=2 preemptions, points at the quota / shared-state locks) cover two concurrent requests on one key and a child + parent request sharing the parent.",
   note="whole-second arrival instants; scheduling decisions only at sync operations of streams/resources/quota and streams/lunar-context; one known finding (double charge when child and parent limiters both see a request)"),

 "C02": dict(level="model_checking", engine="seqx-bfs+schedx", design="§3 C02",
   technique="explicit-state BFS over request / early-response / response / proxy-error / clock histories through a real engine with a concurrent quota (its own GC goroutine running), against an occupancy reference; schedule exploration of concurrent arrivals and response-vs-error",
   text="Three configurations (max 1, max 2, max 1 followed by a second rate quota on the same path); every history up to depth 6 (7 thorough) over three transaction slots of request, request answered early by the gateway, response, proxy error report and clock steps of 1 s / 3 s runs through a real streams.Stream in virtual time. A request may be admitted only while fewer than max admitted, un-ended, un-expired transactions exist; it may be refused only while max slots can still be held (no leaked slot: ended or expired+GC'd transactions free theirs). Schedules (<=2 preemptions) cover two arrivals competing for one slot and a holder's response racing its error report followed by probes.",
   note="slots of abandoned transactions must be free one GC interval after their expiry; scheduling decisions at sync operations of streams/resources and streams/lunar-context; virtual time"),

 "C15": dict(level="exploration", engine="seqx-product", design="§3 C15",
   technique="bounded-exhaustive enumeration of access-log record streams x every batch composition x restart points through the real discovery.Run / State / convergent URL tree, with conservation and batch-invariance oracles",
   text="Every record stream up to length 3 over 20 record letters (5 URLs of which three converge under an inferred path parameter, 4 method/status/duration/consumer/interceptor profiles), length 4 over 10 letters and length 5 over 4 URLs (thorough: one longer each) is processed by the real aggregation plugin in every composition into consecutive batches, and again with a restart (state read back from disk, tree rebuilt) after every batch. Final state: counts sum to the number of records, per endpoint and per consumer count = records attributed = sum of status counts, min/max = extreme timestamps, averages = exact means within 1e-4; identical statistics for all compositions; totals preserved across restarts.",
   note="attribution uses the run's own final URL tree (lookup only); convergence threshold 2; after a restart only totals are compared"),

 "C19": dict(level="model_checking", engine="python-bfs", design="§3 C19",
   technique="explicit-state BFS over call/clock histories of the real Python FailSafe driven through the real requests-hook closure (time patched, stub third-party modules) against a routing/propagation envelope; full product enumeration for TrafficFilter.is_allowed",
   text="For thresholds 1-3 x cool-downs 1-2 s the fail-safe is built through FailSafeConfig from the two environment variables exactly as the package does and driven through RequestsHook's _request closure; every history up to depth 8 (10 thorough) of calls with scripted outcomes (success, gateway connection error, x-lunar-error header, application exception on the gateway / direct path) and clock steps is explored with state merging. Checked: the gateway is not tried while the breaker must be open, calls are not bypassed without cause, gateway-side failures are swallowed and retried directly, other exceptions propagate unchanged, a gateway success clears the count. TrafficFilter: 9x9 allow/block lists x 34 destinations (names resolving to private / loopback / 172.16-31 edges, IPv6 literals, unresolvable and malformed names) x 3 header variants: is_allowed never raises and never returns True for excluded, private, loopback or unresolvable destinations.",
   note="yarl / multidict / requests are stubs (not installed in the image); DNS from a fixed table; both readings of 'tries the gateway again' after a cool-down are accepted"),

 "C06": dict(level="exploration", engine="schedx", design="§3 C06",
   technique="stateless schedule exploration (preemption- and early-timer-bounded DFS, execution cap reported) of arrivals through a real engine's Queue processor with its background goroutines, virtual time, invariant + final oracles",
   text="Scenarios (two arrivals on a size-1 queue, a low- then a high-priority arrival, shutdown with a waiter; thorough adds three same-priority arrivals and three arrivals on a size-2 queue) run through a real streams.Stream whose flow contains the Queue processor (process loop every 100 ms, TTL watcher, removal goroutines) and a 1-per-second quota. All schedules with <=1 preemption and <=1 early time step (2/1 thorough) up to an execution cap: every request gets exactly one verdict no later than TTL + 4 ticks, waiters never exceed queue_size at any quiescent point, admissions fit the quota windows, a waiter with a better priority (or same priority and already waiting before the other arrived) is never overtaken, a rejection before TTL only when the queue was full, shutdown releases all waiters; a crash of the worker is a violation.",
   note="execution cap per scenario (evidence reports exhaustive:false and the cap when hit); scheduling decisions at sync operations of processors/queue, the in-memory shared queue and the quota; admission order observed through the availability of waiters' verdicts"),

 "C18": dict(level="exploration", engine="schedx+race-oracle", design="§2.4, §3 C18",
   technique="stateless schedule exploration (preemption-bounded DFS) of the real engine built with -race, the scheduler's hand-offs hidden from the detector so that it acts as a per-schedule happens-before oracle; serialisability oracle on the verdicts",
   text="Five scenarios (two requests through one flow; a request racing another transaction's response on a concurrency quota; a request racing the quota metrics observation; a response racing the quota GC pass; policy mode: transaction look-ups racing a reload and the vacuum loops) are explored under all schedules with <=2 preemptions (3 thorough, execution cap reported). A violation is any happens-before race whose two accesses are in repository functions in any explored schedule (keyed by the function pair), a verdict multiset that no one-at-a-time order produces, or a crashed worker.",
   note="Go race detector (HB, not a weak-memory simulator); reports whose racing access is in harness code are ignored; scenario set-up runs with synchronisation visible so goroutine creation orders it; scheduling decisions at sync operations of lunar/engine/streams, lunar/engine/config, toolkit-core/vacuum"),
 "C08": dict(level="fault_enumeration", engine="faultx+schedx", design="§3 C08",
   technique="exhaustive single-fault enumeration (every file-system call and every admin-API call of the real update handlers failed in turn) over payloads x endpoints x initial disk states, plus stateless schedule exploration (preemption-bounded DFS) of probe transactions against a running update",
   text="The real handleConfiguration / handleApplyFlows handlers of a real HandlingDataManager are driven in-process. For 2 initial disk states x 14 payloads (valid, undecodable, failing validation, adding/changing/removing files in every section) x 2 endpoints, a fault-free run numbers the os calls of config/gateway_file_system.go (routed through a fault shim) and the HAProxy admin-API calls; every one of them is then failed in turn (a failed write leaves half the content). Oracle: a non-2xx answer leaves the directory tree byte-identical and the verdicts of 6 probe transactions unchanged; a 2xx answer makes the serving engine agree with a fresh engine built from the files on disk; the serving engine never panics or disappears. Schedules: two probe transactions against one running update (3 payloads x 2 endpoints), all interleavings at sync operations with <=1 preemption (2 thorough): each probe verdict is the old or the new configuration's, never an empty or partial engine's.",
   note="single faults only (a second fault inside the rollback cannot be survived by an in-place rollback); faults at the os calls of gateway_file_system.go (filepath.Walk and the readers of streams.NewStream use the real file system); admin API = in-process RoundTripper; transactions read the engine pointer exactly like routing.processRequest; refused payload in the schedule scenarios fails at YAML parsing so that Go map order does not change the schedule tree; known finding: a fault inside Restore itself"),
 "C04": dict(level="exploration", engine="seqx-product", design="§3 C04",
   technique="bounded-exhaustive enumeration of flow graphs x inputs through a real engine, with a recording wrapper around every processor factory; the executed-processor sequence is compared with an independent reference walker",
   text="Family A: every request graph over <=3 probe processors (root + forward connections, <=2 ordered connections per node over conditions {none,a} (thorough {none,a,b}), stream-end connections anywhere in the list) x 3 response shapes x every output choice per processor including 'answers the request itself'; family B: the same graph family as the response direction; family C: 2-3 user flows on nested URL patterns x 4 quota sets (system flows with the real QuotaProcessorInc/Dec) x every subset of processors answering early. Each configuration is rendered to YAML, loaded into a real streams.Stream and driven through the request and response entry points; every processor execution emits an event (flow, key, direction, output). Oracle: the event sequence equals the reference walk (declared order, exactly the connections whose condition equals the output, nothing after an early response, response path continuing from the answering processor's response connection), system flows precede user flows on requests, user and system flows run in reverse order on responses.",
   note="probe processors (output chosen by the harness) stand in for the processor vocabulary; flow-to-flow references are not generated; acyclic forward graphs only (C05 covers the rest); the order between different user flows on the request is observed, not prescribed"),
 "C05": dict(level="exploration", engine="seqx-product", design="§3 C05",
   technique="bounded-exhaustive enumeration of flow graphs the YAML schema can express (cycles, self loops, rootless directions, unreachable nodes) and of schema oddities through the real validator and loader; every accepted configuration is run on every input with an executed-processor step counter and panic guard",
   text="Request direction: every graph over <=2 probe processors (any root or none, <=2 ordered connections per node to any node including itself or to the stream end, conditions {none,a}) and over 3 processors with <=1 connection per node (<=2 thorough); response direction: the same families over a request processor that may answer early plus response-only processors; 38 hand-written oddities (dangling references, duplicate keys/flows/parameters, missing parameters, self- and mutually-referencing flows, built-in processors in loops, 12 odd quota files). Each configuration is written to disk and submitted to validation.Validator (the code behind validate_flows, load_flows and flows-validator). For each accepted one the normal load must succeed and every transaction (every output choice per processor x request+response; for oddities 5 transactions with malformed bodies, odd headers and URLs) must finish within 64 processor executions per direction without panic; a validator panic or a crashed worker process (fatal stack overflow) is a violation.",
   note="acceptance is whatever the validator says (rejecting a harmless configuration is not a violation); bounded = 64 processor executions per direction; the step counter panics before the Go stack can overflow, genuine fatal crashes are caught as worker deaths; probe processors stand in for the vocabulary in the generated graphs"),
}
NA_REASON = "no check registered"
def main():
    checks = []
    for pid in ALL:
        if pid not in CHECKS: continue
        c = CHECKS[pid]
        checks.append({
            "property_id": pid,
            "quick_cmd": f"bin/check {pid} quick",
            "thorough_cmd": f"bin/check {pid} thorough",
            "evidence_file": f"/verif/evidence/{pid}.json",
            "replay_cmd_template": f"bin/check {pid} --replay {{path}}",
            "engine": c["engine"],
            "level_claimed": {"category": c["level"], "text": c["text"], "design_ref": c["design"]},
            "level_note": c["note"],
            "technique": c["technique"],
        })
    m = {
        "version": 1,
        "setup_cmd": "bin/setup",
        "hooks": {
            "guard": "verif_overlay",
            "enable": "bin/check generates a `go build -overlay` description from /repo's current sources (tools/ovlgen): additive export shim files from /verif/shims, the verifrt runtime as a virtual package, and sync/atomic/os import rewriting for scheduler/fault builds. No hook is committed to /repo.",
            "baseline_off_cmd": "for m in proxy/src/libs/shared-model proxy/src/libs/toolkit-core proxy/src/services/aggregation-output-plugin proxy/src/services/async-service proxy/src/services/flows-validator proxy/src/services/lunar-engine; do (cd /repo/$m && GOFLAGS=-mod=mod go test -json -vet=off -count=1 -timeout 25m ./...); done",
            "source_commits": [],
            "add_only": True,
        },
        "engines": [
            {"name": "seqx", "path": "harness/mc/seq.go", "serves_properties": [p for p in CHECKS if CHECKS[p]["engine"].startswith("seqx")], "kind_free_text": "bounded-exhaustive history BFS / product enumeration over the real objects against reference models"},
            {"name": "faultx", "path": "rt/vos + harness/c08", "serves_properties": [p for p in CHECKS if "faultx" in CHECKS[p]["engine"]], "kind_free_text": "exhaustive enumeration of single injected faults at numbered os / admin-API call sites of the real update path"},
            {"name": "schedx", "path": "rt/ + harness/mc/sched.go", "serves_properties": [p for p in CHECKS if "schedx" in CHECKS[p]["engine"]], "kind_free_text": "stateless schedule exploration (preemption-bounded DFS) of the real code under a synctest-based cooperative scheduler"},
        ],
        "checks": checks,
        "not_applicable": [{"property_id": p, "reason": NA_REASON} for p in ALL if p not in CHECKS],
        "notes": "See DESIGN.md. bin/check <ID> <tier> rebuilds from /repo's working tree every time.",
    }
    json.dump(m, open("/verif/MANIFEST.json", "w"), indent=1)
    try:
        import jsonschema
        jsonschema.validate(m, json.load(open("/root/.vp/MANIFEST.schema.json")))
        print("MANIFEST.json valid;", len(checks), "checks")
    except ImportError:
        print("jsonschema not available; not validated")
if __name__ == "__main__":
    main()
