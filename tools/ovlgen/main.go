// ovlgen builds a `go build -overlay` description from /repo's *current* sources:
//
//  1. every file under /verif/shims/<path relative to /repo>/ is added to the
//     repo package at that path (additive export shims, never replacing a file);
//  2. /verif/rt is mounted as the virtual package tree lunar/toolkit-core/verifrt;
//  3. with -sched, every non-test Go file of the selected source roots that
//     imports "sync" / "sync/atomic" is copied with exactly that import spec
//     rewritten to the verifrt shim (named import keeps every use site intact);
//     with -os=<file,...> the named files get "os" rewritten to verifrt/vos.
//
// Nothing under /repo is written.
package main

import (
	"bytes"
	"encoding/json"
	"flag"
	"fmt"
	"go/ast"
	"go/parser"
	"go/printer"
	"go/token"
	"os"
	"path/filepath"
	"strconv"
	"strings"
)

const repo = "/repo"
const rtMount = "/repo/proxy/src/libs/toolkit-core/verifrt"

var schedRoots = []string{
	"proxy/src/services/lunar-engine",
	"proxy/src/libs/toolkit-core",
}

// packages whose sync usage stays native even in -sched mode (logging / otel /
// network plumbing that is not part of any property and only adds noise points)
var schedSkip = []string{
	"proxy/src/libs/toolkit-core/verifrt",
	"proxy/src/libs/toolkit-core/logging",
	"proxy/src/libs/toolkit-core/otel",
	"proxy/src/libs/toolkit-core/redis-client",
	"proxy/src/libs/toolkit-core/ai",
	"proxy/src/libs/toolkit-core/client",
	"proxy/src/services/lunar-engine/doctor",
	"proxy/src/services/lunar-engine/communication",
	"proxy/src/services/lunar-engine/metrics",
}

func main() {
	out := flag.String("out", "", "output directory (overlay.json + rewritten files)")
	sched := flag.Bool("sched", false, "rewrite sync / sync/atomic imports to the verifrt shims")
	osFiles := flag.String("os", "", "comma separated repo-relative files whose \"os\" import is rewritten to verifrt/vos")
	shimDirs := flag.String("shims", "/verif/shims", "comma separated shim roots")
	flag.Parse()
	if *out == "" {
		fmt.Fprintln(os.Stderr, "ovlgen: -out required")
		os.Exit(2)
	}
	must(os.MkdirAll(*out, 0o755))
	replace := map[string]string{}

	// 1. shims
	for _, sd := range strings.Split(*shimDirs, ",") {
		if sd == "" {
			continue
		}
		_ = filepath.Walk(sd, func(p string, info os.FileInfo, err error) error {
			if err != nil || info.IsDir() || !strings.HasSuffix(p, ".go") {
				return nil
			}
			rel, _ := filepath.Rel(sd, p)
			target := filepath.Join(repo, rel)
			if _, err := os.Stat(target); err == nil {
				fatal("shim %s would replace existing repo file %s", p, target)
			}
			if _, err := os.Stat(filepath.Dir(target)); err != nil {
				fatal("shim %s targets a package directory that does not exist: %s", p, filepath.Dir(target))
			}
			replace[target] = p
			return nil
		})
	}
	// 2. runtime
	_ = filepath.Walk("/verif/rt", func(p string, info os.FileInfo, err error) error {
		if err != nil || info.IsDir() || !strings.HasSuffix(p, ".go") {
			return nil
		}
		rel, _ := filepath.Rel("/verif/rt", p)
		replace[filepath.Join(rtMount, rel)] = p
		return nil
	})
	// 3. import rewriting
	n := 0
	if *sched {
		for _, root := range schedRoots {
			_ = filepath.Walk(filepath.Join(repo, root), func(p string, info os.FileInfo, err error) error {
				if err != nil {
					return nil
				}
				rel, _ := filepath.Rel(repo, p)
				if info.IsDir() {
					for _, s := range schedSkip {
						if rel == s {
							return filepath.SkipDir
						}
					}
					return nil
				}
				if !strings.HasSuffix(p, ".go") || strings.HasSuffix(p, "_test.go") {
					return nil
				}
				if _, isShim := replace[p]; isShim {
					return nil
				}
				if rewriteFile(p, *out, replace, map[string]string{
					"sync":        "lunar/toolkit-core/verifrt/vsync",
					"sync/atomic": "lunar/toolkit-core/verifrt/vatomic",
				}) {
					n++
				}
				return nil
			})
		}
	}
	for _, f := range strings.Split(*osFiles, ",") {
		if f == "" {
			continue
		}
		p := filepath.Join(repo, f)
		src := p
		if r, ok := replace[p]; ok {
			src = r // already rewritten for sync: rewrite the rewritten copy
		}
		if !rewriteFileFrom(src, p, *out, replace, map[string]string{"os": "lunar/toolkit-core/verifrt/vos"}) {
			fatal("file %s does not import \"os\"", f)
		}
		n++
	}
	b, _ := json.MarshalIndent(map[string]any{"Replace": replace}, "", " ")
	must(os.WriteFile(filepath.Join(*out, "overlay.json"), b, 0o644))
	fmt.Fprintf(os.Stderr, "ovlgen: %d overlay entries, %d files rewritten\n", len(replace), n)
}

func rewriteFile(p, out string, replace map[string]string, m map[string]string) bool {
	return rewriteFileFrom(p, p, out, replace, m)
}

// rewriteFileFrom parses src (the current content standing for repo path p) and, if it
// imports any key of m, writes a copy in which that import spec points at the shim
// package under the original package name.
func rewriteFileFrom(src, p, out string, replace map[string]string, m map[string]string) bool {
	fset := token.NewFileSet()
	f, err := parser.ParseFile(fset, src, nil, parser.ParseComments)
	if err != nil {
		fatal("parse %s: %v", src, err)
	}
	changed := false
	for _, imp := range f.Imports {
		path, _ := strconv.Unquote(imp.Path.Value)
		to, ok := m[path]
		if !ok {
			continue
		}
		name := filepath.Base(path) // sync, atomic, os
		if imp.Name != nil {
			if imp.Name.Name == "_" || imp.Name.Name == "." {
				fatal("%s: unsupported import form for %s", p, path)
			}
			name = imp.Name.Name
		}
		imp.Name = ast.NewIdent(name)
		imp.Path.Value = strconv.Quote(to)
		changed = true
	}
	if !changed {
		return false
	}
	var buf bytes.Buffer
	// //line directive keeps file/line positions of diagnostics and stack traces on the repo file
	must((&printer.Config{Mode: printer.SourcePos | printer.TabIndent, Tabwidth: 8}).Fprint(&buf, fset, f))
	rel, _ := filepath.Rel(repo, p)
	dst := filepath.Join(out, "src", rel)
	must(os.MkdirAll(filepath.Dir(dst), 0o755))
	must(os.WriteFile(dst, buf.Bytes(), 0o644))
	replace[p] = dst
	return true
}

func must(err error) {
	if err != nil {
		fatal("%v", err)
	}
}

func fatal(f string, a ...any) {
	fmt.Fprintf(os.Stderr, "ovlgen: "+f+"\n", a...)
	os.Exit(2)
}
