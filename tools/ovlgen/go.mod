module ovlgen

go 1.22
