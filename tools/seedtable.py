#!/usr/bin/env python3
"""Rewrites the seed table of DESIGN.md section 8.5 from seeded/*/meta.json
(between the markers <!-- seedtable:begin --> and <!-- seedtable:end -->)."""
import json, glob, re
rows = []
for p in sorted(glob.glob('/verif/seeded/*/meta.json'), key=lambda p: (p.split('/')[-2].split('-')[0], int(p.split('/')[-2].split('-')[1]))):
    m = json.load(open(p)); name = p.split('/')[-2]
    cr = m.get('check_run', {})
    rows.append((name, m.get('patch_against'), cr.get('patch_used'), cr.get('exit'), m.get('detected_by') or []))
det = sum(1 for r in rows if r[3] == 1)
out = ['<!-- seedtable:begin -->',
       'Result of the last full matrix (quick tier; afterwards every check was re-run green on the clean tree): '
       '**%d of %d detected.**' % (det, len(rows)), '',
       '| seed | made against | patch used | quick check | violation keys reported (first two) |', '|---|---|---|---|---|']
for name, base, pu, ex, keys in rows:
    verdict = {1: 'VIOLATION (exit 1)', 0: 'not detected (exit 0)'}.get(ex, 'n/a')
    out.append('| %s | %s | %s | %s | %s |' % (name, base, pu, verdict, ', '.join('`%s`' % k for k in keys[:2]) or '—'))
out.append('<!-- seedtable:end -->')
s = open('/verif/DESIGN.md').read()
a, b = s.index('<!-- seedtable:begin -->'), s.index('<!-- seedtable:end -->') + len('<!-- seedtable:end -->')
open('/verif/DESIGN.md', 'w').write(s[:a] + '\n'.join(out) + s[b:])
print(det, 'of', len(rows))
