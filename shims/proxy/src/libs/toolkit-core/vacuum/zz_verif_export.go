package vacuum

// VerifStop ends the background loop after its current sleep (additive export shim; the
// repository never switches a vacuum off, which would keep a virtual-time bubble alive).
//
//go:norace
func (mapVacuum *MapVacuum[K, V]) VerifStop() { mapVacuum.active = false }
