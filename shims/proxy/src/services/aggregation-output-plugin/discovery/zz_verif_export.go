package discovery

// VerifAgg exposes the in-memory aggregation of a State (additive export shim).
func (state *State) VerifAgg() *Agg { return state.aggregation }
