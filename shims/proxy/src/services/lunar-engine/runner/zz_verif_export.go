package runner

import (
	"lunar/engine/actions"
	"lunar/engine/config"
	lunarMessages "lunar/engine/messages"
	"lunar/engine/services"
	sharedConfig "lunar/shared-model/config"
)

// VerifGetRemedies exposes the dispatcher's endpoint remedy selection (additive export shim).
func VerifGetRemedies(method, url string, tree *config.EndpointPolicyTree) []config.ScopedRemedy {
	return getRemedies(method, url, tree, &sharedConfig.Global{})
}

func VerifGetDiagnoses(method, url string, tree *config.EndpointPolicyTree) []*config.ScopedDiagnosis {
	return getDiagnoses(method, url, tree, nil)
}

// VerifRunOnRequest is the policy-mode remedy chain itself (runs every remedy's plugin and
// folds their actions); returns the combined action.
func VerifRunOnRequest(
	args lunarMessages.OnRequest,
	remedies []config.ScopedRemedy,
	plugins *services.RemedyPlugins,
	accounts map[sharedConfig.AccountID]sharedConfig.Account,
) (actions.ReqLunarAction, error) {
	res, err := runOnRequest(args, remedies, plugins, accounts)
	return res.action, err
}
