package runner

import (
	"lunar/engine/config"
	sharedConfig "lunar/shared-model/config"
)

// VerifGetRemedies exposes the dispatcher's endpoint remedy selection (additive export shim).
func VerifGetRemedies(method, url string, tree *config.EndpointPolicyTree) []config.ScopedRemedy {
	return getRemedies(method, url, tree, &sharedConfig.Global{})
}

func VerifGetDiagnoses(method, url string, tree *config.EndpointPolicyTree) []*config.ScopedDiagnosis {
	return getDiagnoses(method, url, tree, nil)
}
