package utils

import (
	"fmt"
	"sort"
	"strings"
	"time"
)

// VerifCacheDump renders the complete MemoryCache state canonically (additive export shim):
// every entry with its remaining lifetime, the accounted and the actual total size.
//
//go:norace
func VerifCacheDump[K comparable, V any](c Cache[K, V], now time.Time, show func(K, V) string) (desc string, actualSize, accountedSize, maxSize float64, sized bool) {
	mc, ok := c.(*MemoryCache[K, V])
	if !ok {
		return "?", 0, 0, 0, false
	}
	var parts []string
	for k, w := range mc.cache {
		parts = append(parts, fmt.Sprintf("%s@%v", show(k, w.value), time.Duration(w.expirationTimeNano-now.UnixNano())))
		if mc.calculateSizeFunc != nil {
			actualSize += mc.calculateSizeFunc(k, w.value)
		}
	}
	sort.Strings(parts)
	return strings.Join(parts, ";"), actualSize, mc.currentCacheSize, mc.maxCacheSize, mc.calculateCacheSize
}
