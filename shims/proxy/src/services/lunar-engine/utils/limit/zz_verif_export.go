package limit

import (
	"fmt"
	"sort"
	"strings"
	"time"
)

// VerifDump renders the complete rate-limit state canonically (additive export shim):
// per (limiter, group) the counter, spillover and the window end relative to now.
//
//go:norace
func VerifDump(s IncrementableRateLimitState, now time.Time) string {
	st, ok := s.(*RateLimitState)
	if !ok {
		return "?"
	}
	var parts []string
	for k, v := range st.groupsStateByLimiter {
		end := "epoch"
		if !v.windowEndTime.Equal(epochTime) {
			end = v.windowEndTime.Sub(now).String()
		}
		parts = append(parts, fmt.Sprintf("%s/%s:c=%d,s=%d,end=%s,w=%s", k.LimiterID, k.GroupID, v.counter, v.spillover, end, v.windowData.WindowSize))
	}
	sort.Strings(parts)
	return strings.Join(parts, ";")
}
