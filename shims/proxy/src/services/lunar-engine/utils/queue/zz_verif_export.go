package queue

import (
	"time"
	"unsafe"
)

// Additive export shims for the C10 harness (build overlay only).

type VerifState struct {
	Counter   int64
	WindowEnd time.Time
	HeapIDs   []string
	Counts    map[float64]int64
}

// VerifDump reads the queue state without locking; only called at quiescent points of the
// controlled scheduler (every goroutine parked).
//
//go:norace
func VerifDump(d *DelayedPriorityQueue) VerifState {
	s := VerifState{Counter: d.currentWindowCounter, WindowEnd: d.currentWindowEndTime, Counts: map[float64]int64{}}
	for _, r := range d.queue {
		s.HeapIDs = append(s.HeapIDs, r.ID)
	}
	for k, v := range d.requestCounts {
		s.Counts[k] = v
	}
	return s
}

//go:norace
func VerifMutexAddr(d *DelayedPriorityQueue) uintptr { return uintptr(unsafe.Pointer(&d.mutex)) }

// VerifGranted reports whether the request has been granted (done channel signalled or
// closed) without consuming a buffered token.
//
//go:norace
func VerifGranted(r *Request) bool {
	if len(r.doneCh) > 0 {
		return true
	}
	select {
	case <-r.doneCh:
		return true
	default:
		return false
	}
}
