package remedies

import (
	"fmt"
	"lunar/engine/utils"
	"time"
)

// Additive export shims: canonical state of the two response-replaying remedies.

//go:norace
func VerifCachingState(p *CachingPlugin, now time.Time) (desc string, actualSize, accountedSize, maxSize float64, sized bool) {
	return utils.VerifCacheDump[CachingPluginKey, CachedResponse](p.responseCache, now,
		func(k CachingPluginKey, v CachedResponse) string {
			return fmt.Sprintf("%s %s %.8s=%s/%d", k.Method, k.URL, k.HashedRequestPayload, v.Body, v.Status)
		})
}

//go:norace
func VerifThrottlingState(p *ResponseBasedThrottlingPlugin, now time.Time) string {
	d, _, _, _, _ := utils.VerifCacheDump[CacheKey, CachedResponse](p.responseCache, now,
		func(k CacheKey, v CachedResponse) string {
			return fmt.Sprintf("%s %s=%s/%d/%v", k.Method, k.URL, v.Body, v.Status, v.Headers)
		})
	return d
}

// VerifRetryState renders the retry remedy's per-sequence state (attempts left, next cool-down,
// remaining lifetime of the entry).
//
//go:norace
func VerifRetryState(p *RetryPlugin, now time.Time) string {
	d, _, _, _, _ := utils.VerifCacheDump[string, RetryState](p.cache, now,
		func(k string, v RetryState) string {
			return fmt.Sprintf("%s=%d/%d", k, v.attemptsLeft, v.nextCooldownSeconds)
		})
	return d
}
