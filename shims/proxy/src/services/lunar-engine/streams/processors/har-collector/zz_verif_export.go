package harcollector

import public_types "lunar/engine/streams/public-types"

// VerifObfuscateBodies drives the HAR collector's body obfuscation path (additive export shim).
func VerifObfuscateBodies(exclusions []string, apiStream public_types.APIStreamI, reqBody, respBody string) (string, string) {
	o := newAPIStreamObfuscator(true, exclusions, apiStream)
	return o.ObfuscateRequestBody(reqBody), o.ObfuscateResponseBody(respBody)
}
