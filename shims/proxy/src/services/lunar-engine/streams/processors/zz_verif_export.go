package processors

import (
	stream_types "lunar/engine/streams/types"
)

// verif overlay shim (additive): lets the harness register a probe processor type and wrap
// every processor factory, so that each processor execution emits an event.

var verifOriginalRegistry map[string]ProcessorFactory

// VerifInstall registers extra processor factories and wraps every factory (built-in and
// extra) with wrap. Calling it again replaces the previous installation.
func VerifInstall(
	extra map[string]ProcessorFactory,
	wrap func(*stream_types.ProcessorMetaData, stream_types.ProcessorI) stream_types.ProcessorI,
) {
	if verifOriginalRegistry == nil {
		verifOriginalRegistry = map[string]ProcessorFactory{}
		for name, factory := range internalProcessorRegistry {
			verifOriginalRegistry[name] = factory
		}
	}
	registry := map[string]ProcessorFactory{}
	add := func(name string, factory ProcessorFactory) {
		registry[name] = func(md *stream_types.ProcessorMetaData) (stream_types.ProcessorI, error) {
			proc, err := factory(md)
			if err != nil || proc == nil || wrap == nil {
				return proc, err
			}
			return wrap(md, proc), nil
		}
	}
	for name, factory := range verifOriginalRegistry {
		add(name, factory)
	}
	for name, factory := range extra {
		add(name, factory)
	}
	internalProcessorRegistry = registry
}
