package lunarcontext

import (
	"fmt"
	publictypes "lunar/engine/streams/public-types"
	"sort"
	"strings"
)

// VerifDumpContext renders an in-memory context (flow / global / transactional) canonically:
// every key with its value, sorted (additive export shim).
func VerifDumpContext(c publictypes.ContextI) string {
	cm, ok := c.(*contextMemory)
	if !ok || cm == nil {
		return "?"
	}
	var parts []string
	cm.ctx.Range(func(k, v any) bool {
		parts = append(parts, fmt.Sprintf("%v=%v", k, v))
		return true
	})
	sort.Strings(parts)
	return strings.Join(parts, ";")
}
