package streams

import "time"

// VerifQuotaDump renders the state of every quota of the engine canonically (additive
// export shim, used as part of the model checker's state key).
//
//go:norace
func VerifQuotaDump(s *Stream, now time.Time) string { return s.resources.VerifQuotaDump(now) }

// VerifObserveQuotas does what the quota metric callbacks do: read every quota's group
// counters (without going through an OpenTelemetry reader).
func VerifObserveQuotas(s *Stream) int { return s.resources.VerifObserveQuotas() }
