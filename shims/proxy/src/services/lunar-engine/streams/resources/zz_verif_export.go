package resources

import (
	quotaResource "lunar/engine/streams/resources/quota"
	"sort"
	"strings"
	"time"
)

//go:norace
func (rm *ResourceManagement) VerifQuotaDump(now time.Time) string {
	var parts []string
	for _, q := range rm.quotas.GetAll() {
		parts = append(parts, quotaResource.VerifDump(q, now))
	}
	sort.Strings(parts)
	// a provider's quotas are registered under each of their ids: drop duplicates
	out := parts[:0]
	for i, p := range parts {
		if i == 0 || p != parts[i-1] {
			out = append(out, p)
		}
	}
	return strings.Join(out, " ")
}

func (rm *ResourceManagement) VerifObserveQuotas() int {
	n := 0
	for _, q := range rm.quotas.GetAll() {
		n += quotaResource.VerifObserve(q)
	}
	return n
}
