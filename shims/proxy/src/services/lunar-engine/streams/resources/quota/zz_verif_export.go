package quotaresource

import (
	"fmt"
	"sort"
	"strings"
	"time"
)

// VerifDump renders one provider's quotas (root and internal limits) canonically:
// fixed window: per group the counter, the window age and the number of remembered request
// verdicts; concurrent: members with their remaining lifetime and the request status map.
//
//go:norace
func VerifDump(q QuotaAdmI, now time.Time) string {
	qr, ok := q.(*quotaResource)
	if !ok {
		return "?"
	}
	var parts []string
	for _, id := range qr.ids {
		node := qr.quotaTrie.GetNode(id)
		if node == nil {
			continue
		}
		switch st := node.GetQuota().(type) {
		case *fixedWindow:
			var gs []string
			for key, g := range st.quotaGroups {
				cnt, _ := g.context.GetQuotaCounter(g.currentCountKey + " // _counter")
				age := "-"
				if ws, err := g.context.Get(g.currentCountKey + " // _window_start"); err == nil {
					// expired windows keep their exact age: a correct implementation ignores
					// it, a broken one may not (no abstraction beyond what is proven irrelevant)
					age = now.Sub(time.Unix(ws, 0)).String()
				}
				gs = append(gs, fmt.Sprintf("%s=%d@%s/%d", key, cnt, age, len(g.allowedByReqID)))
			}
			sort.Strings(gs)
			parts = append(parts, "fw["+strings.Join(gs, ",")+"]")
		case *concurrentStrategy:
			members, _ := st.sharedContext.SMembers(st.concurrentSetKey)
			var ms []string
			for _, m := range members {
				pm, err := st.extractMemberFromItem(m)
				if err != nil {
					ms = append(ms, "bad:"+m)
					continue
				}
				ms = append(ms, fmt.Sprintf("%s+%s", pm.ReqID, pm.ExpiryTime))
			}
			sort.Strings(ms)
			var as []string
			for id, a := range st.allowedReq {
				as = append(as, fmt.Sprintf("%s:%d", id, a.status))
			}
			sort.Strings(as)
			parts = append(parts, fmt.Sprintf("cc[%s|%s]", strings.Join(ms, ","), strings.Join(as, ",")))
		default:
			parts = append(parts, fmt.Sprintf("%T", st))
		}
	}
	return id0(qr) + "{" + strings.Join(parts, ";") + "}"
}

func id0(qr *quotaResource) string {
	if len(qr.ids) > 0 {
		return qr.ids[0]
	}
	return "?"
}

// VerifObserve reads the group counters of every quota of the provider exactly like
// observeQuotaUsed does (the OpenTelemetry callback), returning the number of counters read.
func VerifObserve(q QuotaAdmI) int {
	qr, ok := q.(*quotaResource)
	if !ok {
		return 0
	}
	n := 0
	for quotaID := range qr.definedQuotas {
		quota, err := qr.getQuota(quotaID)
		if err != nil {
			continue
		}
		n += len(quota.GetQuotaGroupsCounters())
	}
	return n
}
