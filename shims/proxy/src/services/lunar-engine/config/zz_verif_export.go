package config

import (
	"fmt"
	"sort"
	"strings"
	"time"
)

// VerifAccessorDump renders the accessor's versioning state canonically (additive export
// shim): current version, retained versions, pins; read without locking at quiescent points.
//
//go:norace
func VerifAccessorDump(a *TxnPoliciesAccessor, now time.Time) string {
	var vs, ps []string
	for v := range a.policiesVersions {
		vs = append(vs, fmt.Sprint(int(v)-int(a.currentVersion)))
	}
	for t, v := range a.txnVersions {
		ps = append(ps, fmt.Sprintf("%s->%d", t, int(v)-int(a.currentVersion)))
	}
	sort.Strings(vs)
	sort.Strings(ps)
	return "versions[" + strings.Join(vs, ",") + "] pins[" + strings.Join(ps, ",") + "]"
}

//go:norace
func VerifStopVacuums(a *TxnPoliciesAccessor) {
	a.txnVersionsVacuum.VerifStop()
	a.policiesVersionsVacuum.VerifStop()
}
