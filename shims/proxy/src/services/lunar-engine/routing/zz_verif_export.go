package routing

import (
	"lunar/engine/actions"
	"lunar/engine/config"
	lunar_messages "lunar/engine/messages"
	"lunar/engine/metrics"
	"lunar/engine/runner"
	"lunar/engine/services"
	"lunar/engine/streams"
	"net/http"

	"github.com/negasus/haproxy-spoe-go/action"
	"github.com/negasus/haproxy-spoe-go/message"
)

// Additive export shims (build overlay only; see /verif/DESIGN.md §2.2).

func VerifReqActions(args lunar_messages.OnRequest, acts []actions.ReqLunarAction) action.Actions {
	return getSPOEReqActions(args, acts)
}

func VerifRespActions(args lunar_messages.OnResponse, acts []actions.RespLunarAction) action.Actions {
	return getSPOERespActions(args, acts)
}

// VerifFlowsEndpointsRequest runs the manager's own computation of the managed-endpoint
// expressions for a loaded flows engine.
func VerifFlowsEndpointsRequest(stream *streams.Stream) *config.HAProxyEndpointsRequest {
	rd := &HandlingDataManager{isStreamsEnabled: true}
	rd.stream = stream
	return rd.buildHAProxyFlowsEndpointsRequest()
}

// VerifNewHandlingDataManager builds a flows-mode manager the way Setup() does, without the
// doctor / OpenTelemetry exporters / syslog writer (additive constructor shim for C08).
func VerifNewHandlingDataManager() (*HandlingDataManager, error) {
	rd := &HandlingDataManager{isStreamsEnabled: true}
	if err := rd.initializeStreams(); err != nil {
		return nil, err
	}
	mm, err := metrics.NewMetricManager()
	if err != nil {
		return nil, err
	}
	rd.metricManager = mm
	rd.metricManager.UpdateMetricsForFlow(rd.stream)
	return rd, nil
}

func (rd *HandlingDataManager) VerifHandleConfiguration() func(http.ResponseWriter, *http.Request) {
	return rd.handleConfiguration()
}

func (rd *HandlingDataManager) VerifHandleApplyFlows() func(http.ResponseWriter, *http.Request) {
	return rd.handleApplyFlows()
}

func (rd *HandlingDataManager) VerifHandleFlowsLoading() func(http.ResponseWriter, *http.Request) {
	return rd.handleFlowsLoading()
}

// VerifStream returns the engine transactions are currently served by (what processRequest reads).
func (rd *HandlingDataManager) VerifStream() *streams.Stream { return rd.stream }

// VerifNewPolicyManager builds a policy-mode manager around an existing accessor (what Setup()
// does in policy mode, without files, doctor and exporters), so that the real message handlers
// can be driven (additive constructor shim for C11).
func VerifNewPolicyManager(
	accessor *config.TxnPoliciesAccessor,
	initial *config.PoliciesData,
	policiesServices *services.PoliciesServices,
) *HandlingDataManager {
	rd := &HandlingDataManager{}
	rd.configBuildResult = config.BuildResult{Accessor: accessor, Initial: initial}
	rd.diagnosisWorker = runner.NewDiagnosisWorker()
	rd.policiesServices = policiesServices
	return rd
}

// VerifProcessRequest / VerifProcessResponse are the SPOE message handlers themselves.
func VerifProcessRequest(msg *message.Message, rd *HandlingDataManager) (action.Actions, error) {
	return processRequest(msg, rd)
}

func VerifProcessResponse(msg *message.Message, rd *HandlingDataManager) (action.Actions, error) {
	return processResponse(msg, rd)
}

// VerifReadRequestArgs / VerifReadResponseArgs: how the handlers read a SPOE message.
func VerifReadRequestArgs(msg *message.Message) lunar_messages.OnRequest {
	return readRequestArgs(msg)
}

func VerifReadResponseArgs(msg *message.Message) lunar_messages.OnResponse {
	return readResponseArgs(msg)
}
