package routing

import (
	"lunar/engine/actions"
	lunar_messages "lunar/engine/messages"

	"github.com/negasus/haproxy-spoe-go/action"
)

// Additive export shims (build overlay only; see /verif/DESIGN.md §2.2).

func VerifReqActions(args lunar_messages.OnRequest, acts []actions.ReqLunarAction) action.Actions {
	return getSPOEReqActions(args, acts)
}

func VerifRespActions(args lunar_messages.OnResponse, acts []actions.RespLunarAction) action.Actions {
	return getSPOERespActions(args, acts)
}
