package routing

import (
	"lunar/engine/actions"
	"lunar/engine/config"
	lunar_messages "lunar/engine/messages"
	"lunar/engine/streams"

	"github.com/negasus/haproxy-spoe-go/action"
)

// Additive export shims (build overlay only; see /verif/DESIGN.md §2.2).

func VerifReqActions(args lunar_messages.OnRequest, acts []actions.ReqLunarAction) action.Actions {
	return getSPOEReqActions(args, acts)
}

func VerifRespActions(args lunar_messages.OnResponse, acts []actions.RespLunarAction) action.Actions {
	return getSPOERespActions(args, acts)
}

// VerifFlowsEndpointsRequest runs the manager's own computation of the managed-endpoint
// expressions for a loaded flows engine.
func VerifFlowsEndpointsRequest(stream *streams.Stream) *config.HAProxyEndpointsRequest {
	rd := &HandlingDataManager{isStreamsEnabled: true}
	rd.stream = stream
	return rd.buildHAProxyFlowsEndpointsRequest()
}
