# sourced by every /verif script: offline Go environment
export GOFLAGS=-mod=mod GOPROXY=off GOSUMDB=off GOTOOLCHAIN=local
export PATH=$PATH:/usr/local/bin:/usr/local/go/bin
