package c11

// Routing-level family: the real SPOE message handlers (routing.processRequest /
// processResponse) of a policy-mode manager, driven with every history up to a depth over
// {request / 503-response of three transactions (one of them a retry attempt: its id differs
// from its sequence id), reload to a version with / without the retry remedy}.  The version a
// response is handled with is observed through the remedies that acted on it
// (response_active_remedies): a transaction pinned to a version without remedies must not see
// any, a fresh sequence pinned to the version with the retry remedy must see it.

import (
	"fmt"
	"net/http"
	"strings"
	"testing"
	"testing/synctest"
	"time"

	"github.com/negasus/haproxy-spoe-go/action"
	"github.com/negasus/haproxy-spoe-go/message"
	"github.com/negasus/haproxy-spoe-go/payload/kv"

	"lunar/engine/config"
	"lunar/engine/routing"
	"lunar/engine/services"
	"lunar/engine/services/remedies"
	sharedConfig "lunar/shared-model/config"
	"lunar/toolkit-core/clock"
	"verifharness/mc"
)

type rtxn struct{ id, seq string }

var rtxns = []rtxn{{"A", "A"}, {"B", "A"}, {"C", "C"}}

type rev struct {
	kind string // req | resp | reload
	t    int    // transaction index
	with bool   // reload: version with the retry remedy
}

func (e rev) String() string {
	switch e.kind {
	case "reload":
		if e.with {
			return "reload(retry-remedy)"
		}
		return "reload(no-remedies)"
	default:
		x := rtxns[e.t]
		return fmt.Sprintf("%s(id=%s,seq=%s)", e.kind, x.id, x.seq)
	}
}

func ralphabet() []rev {
	var a []rev
	for i := range rtxns {
		a = append(a, rev{kind: "req", t: i}, rev{kind: "resp", t: i})
	}
	return append(a, rev{kind: "reload", with: false}, rev{kind: "reload", with: true})
}

func rpolicies(withRetry bool) *config.PoliciesData {
	cfg := sharedConfig.PoliciesConfig{}
	if withRetry {
		cfg.Global.Remedies = []sharedConfig.Remedy{{Enabled: true, Name: "retry-on-5xx",
			Config: sharedConfig.RemedyConfig{Retry: &sharedConfig.RetryConfig{Attempts: 50, InitialCooldownSeconds: 1, CooldownMultiplier: 1,
				Conditions: sharedConfig.RetryConfigConditions{StatusCode: []sharedConfig.Range[int]{{From: 500, To: 599}}}}}}}
	}
	d, err := config.BuildPolicyData(&cfg, false)
	if err != nil {
		panic(err)
	}
	return d
}

func rmsg(name string, x rtxn, status int64) *message.Message {
	k := kv.NewKV()
	k.Add("id", x.id)
	k.Add("sequence_id", x.seq)
	k.Add("method", "GET")
	k.Add("url", "h.com/orders")
	k.Add("headers", "")
	k.Add("body", []byte(""))
	if name == "lunar-on-request" {
		k.Add("scheme", "https")
		k.Add("path", "/orders")
		k.Add("query", "")
	} else {
		k.Add("status", status)
	}
	return &message.Message{Name: name, KV: k}
}

func activeRemedies(acts action.Actions) string {
	for _, a := range acts {
		if a.Name == "response_active_remedies" {
			return fmt.Sprintf("%s", a.Value)
		}
	}
	return "?"
}

type routingReplay struct {
	Family  string   `json:"family"`
	History []string `json:"history"`
	Indices []int    `json:"indices"`
}

// runRouting plays one history; returns "" or (clause, explanation).
func runRouting(t *testing.T, hist []int, al []rev) (clause, what string, skip bool) {
	http.DefaultClient.Transport = okTransport{} // HAProxy admin API: in-process, always 200
	synctest.Test(t, func(t *testing.T) {
		with, without := rpolicies(true), rpolicies(false)
		acc := config.NewTxnPoliciesAccessor(with)
		rd := routing.VerifNewPolicyManager(&acc, with, &services.PoliciesServices{
			Remedies: services.RemedyPlugins{RetryPlugin: remedies.NewRetryPlugin(clock.NewRealClock())}})
		current := true           // the current version has the retry remedy
		pinned := map[int]bool{}  // txn -> its version has the retry remedy
		started := map[int]bool{} // request seen
		answered := map[int]bool{}
		defer func() {
			config.VerifStopVacuums(&acc)
			time.Sleep(2 * time.Minute)
			synctest.Wait()
		}()
		for step, ei := range hist {
			e := al[ei]
			switch e.kind {
			case "reload":
				if e.with == current {
					skip = true // not a change of version
					return
				}
				pd := without
				if e.with {
					pd = with
				}
				if err := acc.UpdatePoliciesData(pd, false); err != nil {
					clause, what = "ERROR:routing", fmt.Sprintf("step %d reload: %v", step, err)
					return
				}
				current = e.with
			case "req":
				if started[e.t] {
					skip = true
					return
				}
				if _, err := routing.VerifProcessRequest(rmsg("lunar-on-request", rtxns[e.t], 0), rd); err != nil {
					clause, what = "ERROR:routing", fmt.Sprintf("step %d request: %v", step, err)
					return
				}
				started[e.t], pinned[e.t] = true, current
			case "resp":
				if !started[e.t] || answered[e.t] {
					skip = true
					return
				}
				answered[e.t] = true
				acts, err := routing.VerifProcessResponse(rmsg("lunar-on-response", rtxns[e.t], 503), rd)
				if err != nil {
					clause, what = "ERROR:routing", fmt.Sprintf("step %d response: %v", step, err)
					return
				}
				active := activeRemedies(acts)
				x := rtxns[e.t]
				switch {
				case !pinned[e.t] && active != "{}":
					clause = "VERSION-CHANGED:routing"
					what = fmt.Sprintf("transaction id=%s seq=%s was first seen under the version without remedies, but its response was handled with remedies %s", x.id, x.seq, active)
					return
				case pinned[e.t] && x.id == x.seq && active == "{}":
					clause = "VERSION-CHANGED:routing"
					what = fmt.Sprintf("transaction id=%s (a fresh sequence) was first seen under the version with the retry remedy, but its 503 response was handled without it", x.id)
					return
				}
			}
			time.Sleep(time.Second)
		}
	})
	return
}

// validHistory: requests once, responses once and after their request, reloads change the version.
func validHistory(h []int, al []rev) bool {
	current := true
	started, answered := map[int]bool{}, map[int]bool{}
	for _, ei := range h {
		e := al[ei]
		switch e.kind {
		case "reload":
			if e.with == current {
				return false
			}
			current = e.with
		case "req":
			if started[e.t] {
				return false
			}
			started[e.t] = true
		case "resp":
			if !started[e.t] || answered[e.t] {
				return false
			}
			answered[e.t] = true
		}
	}
	return true
}

func routingFamily(t *testing.T, r *mc.Run) {
	al := ralphabet()
	depth := mc.Pick(r, 6, 7)
	idx := 0
	mc.Sequences(len(al), depth, func(h []int) bool {
		if len(h) == 0 {
			return true
		}
		if !validHistory(h, al) {
			return true
		}
		idx++
		if !r.Mine(idx) {
			return true
		}
		clause, what, skip := runRouting(t, h, al)
		if skip {
			return true
		}
		r.Add("routing_histories", 1)
		var names []string
		for _, e := range h {
			names = append(names, al[e].String())
		}
		r.Outcome("routing: ok")
		if strings.Contains(strings.Join(names, " "), "reload") {
			r.NonTrivial("routing|" + strings.Join(names, " "))
		}
		if clause != "" {
			r.Violation(clause, "routing handlers, history ["+strings.Join(names, " ")+"]: "+what,
				routingReplay{"routing", names, append([]int{}, h...)})
		}
		return true
	})
}
