// C11 — a transaction sees one policy version from request to response.
// Engines: seqx history BFS over the real TxnPoliciesAccessor (real reload / revert paths
// through files, real MapVacuum goroutines, virtual time, HAProxy admin API = in-process
// RoundTripper); schedx for request-vs-reload, reload-vs-reload and response-vs-vacuum.
package c11

import (
	"fmt"
	"io"
	"net/http"
	"os"
	"path/filepath"
	"regexp"
	"sort"
	"strings"
	"testing"
	"testing/synctest"
	"time"

	"lunar/engine/config"
	sharedConfig "lunar/shared-model/config"
	"lunar/toolkit-core/configuration"
	"verifharness/mc"
)

// refuseAdmin makes the in-process proxy admin API answer 500 (a reload that the proxy refuses)
var refuseAdmin bool

type okTransport struct{}

func (okTransport) RoundTrip(rq *http.Request) (*http.Response, error) {
	if refuseAdmin {
		if rq.Body != nil {
			io.Copy(io.Discard, rq.Body)
			rq.Body.Close()
		}
		return &http.Response{StatusCode: 500, Body: io.NopCloser(strings.NewReader("refused")), Header: http.Header{}, Request: rq}, nil
	}
	if rq.Body != nil {
		io.Copy(io.Discard, rq.Body)
		rq.Body.Close()
	}
	return &http.Response{StatusCode: 200, Body: io.NopCloser(strings.NewReader("OK")), Header: http.Header{}, Request: rq}, nil
}

const retention = 30 * time.Second

type event struct {
	kind string // req | resp | reload | revert | revertDF | tick
	txn  int
	d    time.Duration
}

func (e event) String() string {
	switch e.kind {
	case "req", "resp":
		return fmt.Sprintf("%s(%d)", e.kind, e.txn+1)
	case "respOld":
		return "resp(oldest of the transactions in flight)"
	case "tick":
		return fmt.Sprintf("tick(%v)", e.d)
	}
	return e.kind
}

var alpha = func() []event {
	ev := []event{{kind: "req", txn: 0}, {kind: "resp", txn: 0}, {kind: "req", txn: 1}, {kind: "resp", txn: 1},
		{kind: "reload"}, {kind: "reloadRefused"}, {kind: "revert"}, {kind: "revertDF"}}
	for _, d := range []time.Duration{time.Second, 5 * time.Second, 24 * time.Second, 29 * time.Second, 31 * time.Second} {
		ev = append(ev, event{kind: "tick", d: d})
	}
	return ev
}()

type slot struct {
	open   bool
	id     string
	marker string
	since  time.Time
	n      int
}

type model struct {
	dir     string
	acc     *config.TxnPoliciesAccessor
	loaded  int    // marker number of the last loaded policies file
	current string // marker every new transaction must get
	slots   [2]slot
	reloads int
	files   int // number of the last policies file written (loaded or refused)
	// many-transactions start state: before the history, `prefill` other transactions (o0, o1,
	// ...) were first seen (all at the start instant, under v1); respOld answers the oldest
	// one not answered yet
	prefill int
	oldNext int
	t0      time.Time
}

// alphabet of the many-transactions start state (indices into alpha plus respOld)
var alphaMany = []event{{kind: "respOld"}, {kind: "req", txn: 0}, {kind: "resp", txn: 0}, {kind: "reload"},
	{kind: "tick", d: time.Second}, {kind: "tick", d: 11 * time.Second}, {kind: "tick", d: 29 * time.Second}, {kind: "tick", d: 31 * time.Second}}

const manyTransactions = 9000

func newModelMany() *model {
	m := newModel()
	m.prefill, m.t0 = manyTransactions, time.Now()
	for i := 0; i < m.prefill; i++ {
		if got := marker(m.acc.GetTxnPoliciesData(config.TxnID(fmt.Sprintf("o%d", i)))); got != "v1" {
			panic("prefill: transaction got " + got)
		}
	}
	return m
}

var oldPinRe = regexp.MustCompile(`o\d+->(-?\d+),?`)

// collapseOld replaces the pins of the pre-filled transactions by their number per version
// (they are interchangeable: same first look-up instant, same version).
func collapseOld(key string) string {
	count := map[string]int{}
	out := oldPinRe.ReplaceAllStringFunc(key, func(x string) string {
		count[oldPinRe.FindStringSubmatch(x)[1]]++
		return ""
	})
	var cs []string
	for k, n := range count {
		cs = append(cs, fmt.Sprintf("old->%sx%d", k, n))
	}
	sort.Strings(cs)
	return out + "|" + strings.Join(cs, ";")
}

func policiesYAML(k int) string {
	return fmt.Sprintf(`global:
  remedies: []
  diagnosis: []
endpoints:
  - url: h.com/v%d
    method: GET
    remedies:
      - name: fixed
        enabled: true
        config:
          fixed_response:
            status_code: 418
    diagnosis: []
`, k)
}

func marker(p *config.PoliciesData) string {
	if p == nil || len(p.Config.Endpoints) == 0 {
		return "<none>"
	}
	return strings.TrimPrefix(p.Config.Endpoints[0].URL, "h.com/")
}

var dirN int

func newModel() *model {
	dirN++
	m := &model{dir: filepath.Join(mc.WorkDir(), fmt.Sprintf("c11-%d", dirN))}
	os.MkdirAll(m.dir, 0o755)
	os.Setenv("LUNAR_PROXY_CONFIG_DIR", m.dir)
	os.Setenv("LUNAR_PROXY_POLICIES_CONFIG", filepath.Join(m.dir, "policies.yaml"))
	http.DefaultClient.Transport = okTransport{}
	m.loaded, m.files = 1, 1
	refuseAdmin = false
	os.WriteFile(filepath.Join(m.dir, "policies.yaml"), []byte(policiesYAML(1)), 0o644)
	br, err := config.BuildInitialFromFile()
	if err != nil {
		panic("BuildInitialFromFile: " + err.Error())
	}
	m.acc = br.Accessor
	m.current = "v1"
	return m
}

func (m *model) close() { os.RemoveAll(m.dir) }

func (m *model) Apply(ei int) string {
	e := alpha[ei]
	if m.prefill > 0 {
		e = alphaMany[ei]
	}
	switch e.kind {
	case "respOld":
		if m.oldNext >= m.prefill {
			return ""
		}
		id := fmt.Sprintf("o%d", m.oldNext)
		m.oldNext++
		got := marker(m.acc.GetTxnPoliciesData(config.TxnID(id)))
		if age := time.Since(m.t0); age <= retention && got != "v1" {
			return fmt.Sprintf("VERSION-CHANGED:many-transactions the response of %s (one of %d transactions in flight, %v after its request, %d reloads so far) was processed with %s, its request saw v1", id, m.prefill, age, m.reloads, got)
		}
		return ""
	case "tick":
		time.Sleep(e.d)
		synctest.Wait()
		return ""
	case "reload":
		m.files++
		m.loaded = m.files
		os.WriteFile(filepath.Join(m.dir, "policies.yaml"), []byte(policiesYAML(m.loaded)), 0o644)
		if err := m.acc.ReloadFromFile(); err != nil {
			return "ERROR reload: " + err.Error()
		}
		m.current = fmt.Sprintf("v%d", m.loaded)
		m.reloads++
		return ""
	case "reloadRefused":
		// a new policies file whose endpoints the proxy refuses to register: the reload
		// fails and the version being served stays what it was
		m.files++
		os.WriteFile(filepath.Join(m.dir, "policies.yaml"), []byte(policiesYAML(m.files)), 0o644)
		refuseAdmin = true
		err := m.acc.ReloadFromFile()
		refuseAdmin = false
		if err == nil {
			return "REFUSED-RELOAD-ACCEPTED the proxy refused the new endpoints but the reload reported success"
		}
		if got := marker(m.acc.GetCurrentPoliciesData()); got != m.current {
			return fmt.Sprintf("REFUSED-RELOAD-APPLIED the reload failed but the current version is %s, was %s", got, m.current)
		}
		return ""
	case "revert", "revertDF":
		var err error
		if e.kind == "revert" {
			err = m.acc.RevertToLastLoaded()
		} else {
			err = m.acc.RevertToDiagnosisFree()
		}
		if err != nil {
			return "ERROR revert: " + err.Error()
		}
		// a revert re-applies the last file the loader READ (the repository saves its "loaded"
		// copy before the update is attempted, so after a refused reload that is the refused
		// file); which of the two it is lies outside the statement: either is accepted, and
		// transactions that start afterwards must get exactly that one
		got := marker(m.acc.GetCurrentPoliciesData())
		if got != fmt.Sprintf("v%d", m.loaded) && got != fmt.Sprintf("v%d", m.files) {
			return fmt.Sprintf("REVERT-TO-UNKNOWN-VERSION after the revert the current version is %s; last loaded v%d, last file read v%d", got, m.loaded, m.files)
		}
		m.current = got
		m.reloads++
		return ""
	}
	s := &m.slots[e.txn]
	now := time.Now()
	if e.kind == "req" {
		if !s.open {
			s.n++
			s.open, s.id, s.since = true, fmt.Sprintf("t%d.%d", e.txn+1, s.n), now
			got := marker(m.acc.GetTxnPoliciesData(config.TxnID(s.id)))
			s.marker = got
			if got != m.current {
				return fmt.Sprintf("NEW-TXN-OLD-VERSION transaction %s started after the last reload got %s, current is %s", s.id, got, m.current)
			}
			return ""
		}
		// the same transaction consulted again (e.g. full-request message after the header message)
		got := marker(m.acc.GetTxnPoliciesData(config.TxnID(s.id)))
		if now.Sub(s.since) <= retention && got != s.marker {
			return fmt.Sprintf("VERSION-CHANGED transaction %s saw %s at its first look-up and %s %v later", s.id, s.marker, got, now.Sub(s.since))
		}
		return ""
	}
	// response
	if !s.open {
		return ""
	}
	got := marker(m.acc.GetTxnPoliciesData(config.TxnID(s.id)))
	age := now.Sub(s.since)
	s.open = false
	if age <= retention && got != s.marker {
		return fmt.Sprintf("VERSION-CHANGED the response of %s (%v after its request, %d reloads so far) was processed with %s, its request saw %s", s.id, age, m.reloads, got, s.marker)
	}
	return ""
}

func (m *model) Key() string {
	now := time.Now()
	var sl []string
	for _, s := range m.slots {
		if s.open {
			age := now.Sub(s.since)
			a := age.String()
			if age > retention+6*time.Second {
				a = "expired"
			}
			rel := "cur"
			if s.marker != m.current {
				rel = "old"
			}
			sl = append(sl, fmt.Sprintf("open:%s:%s", a, rel))
		} else {
			sl = append(sl, "idle")
		}
	}
	key := config.VerifAccessorDump(m.acc, now) + "|" + strings.Join(sl, ",")
	if m.prefill > 0 {
		age := now.Sub(m.t0)
		a := age.String()
		if age > retention+6*time.Second {
			a = "expired"
		}
		key = collapseOld(key) + fmt.Sprintf("|old-answered=%d age=%s", m.oldNext, a)
	}
	return key
}

func TestCheck(t *testing.T) {
	r := mc.New("C11", "model_checking")
	depth := mc.Pick(r, 6, 8)
	if f := mc.ReplayFile(); f != "" {
		var rr routingReplay
		if err := mc.LoadReplay(f, &rr); err == nil && rr.Family == "routing" {
			clause, what, _ := runRouting(t, rr.Indices, ralphabet())
			fmt.Printf("routing history %v -> %s %s\n", rr.History, clause, what)
			if clause != "" {
				t.Fail()
			}
			return
		}
		var rp mc.BFSReplay
		if err := mc.LoadReplay(f, &rp); err != nil || rp.Model == "" {
			fmt.Println("replay: schedule findings carry their trace in the replay file")
			return
		}
		if replayVacuum(t, rp.Model, rp.Path) {
			return
		}
		if rp.Model == "accessor-many-transactions" {
			synctest.Test(t, func(t *testing.T) {
				m := newModelMany()
				defer m.close()
				for i, e := range rp.Path {
					fail := m.Apply(e)
					fmt.Printf("%2d %-12s -> %q\n", i, alphaMany[e], fail)
					if fail != "" {
						t.Fail()
					}
				}
				drain(m)
			})
			return
		}
		synctest.Test(t, func(t *testing.T) {
			m := newModel()
			defer m.close()
			for i, e := range rp.Path {
				fail := m.Apply(e)
				fmt.Printf("%2d %-12s -> %q  %s\n", i, alpha[e], fail, m.Key())
				if fail != "" {
					t.Fail()
				}
			}
			drain(m)
		})
		return
	}
	r.Rule = fmt.Sprintf("explicit-state BFS to depth %d over histories of {req(i), resp(i) for two transaction slots, reload (new policies file + ReloadFromFile), the same reload refused by the proxy's admin API, revert, revert-diagnosis-free, tick(1s|5s|24s|29s|31s)} on the real TxnPoliciesAccessor with its real vacuum goroutines in virtual time; plus the same accessor from a start state with 9000 transactions in flight (depth 4, 5 thorough, over {response of the oldest one, req(1), resp(1), reload, tick(1s|11s|29s|31s)}); plus every history to depth 6 (7 thorough) of the real routing message handlers over {request, 503 response of three transactions incl. a retry attempt whose id differs from its sequence id, reload with/without the retry remedy}; plus the MapVacuum component by itself (every history of {register a new key, 1 s step} to depth 12 for four ttl/tick settings: no key removed before its time-to-live); plus schedules of request-vs-reload, reload-vs-reload(+pinned transaction), response-vs-vacuum; distinct = state keys (accessor dump + slot ages)", depth)
	r.Assume("HAProxy admin API replaced by an in-process RoundTripper (200, or 500 during a refused reload)", "retention asserted for responses up to exactly 30 s after the first look-up")
	if r.Parallel(t, 16) {
		r.Finish(t)
		return
	}
	t0 := time.Now()
	phase := func(n string) {
		if os.Getenv("VERIF_DEBUG") != "" {
			fmt.Fprintf(os.Stderr, "PHASE %s at %v\n", n, time.Since(t0))
		}
	}
	for first := range alpha {
		if !r.Mine(first) {
			continue
		}
		st, tr := mc.BFS(r, mc.BFSOpts{Name: "accessor", NEvents: len(alpha), MaxDepth: depth, Prefix: []int{first}, CheckPrefix: true,
			EvName: func(e int) string { return alpha[e].String() },
			Run: func(body func(mc.Model)) {
				synctest.Test(t, func(t *testing.T) {
					m := newModel()
					defer m.close()
					body(m)
					drain(m)
				})
			}})
		r.NonTrivial(fmt.Sprintf("first=%s states=%d", alpha[first], st))
		r.Outcome(fmt.Sprintf("states=%d", st))
		if first == 4 {
			r.Sample(map[string]any{"first_event": alpha[first].String(), "states": st, "transitions": tr,
				"example": "req(1) reload tick(24s) reload tick(5s) resp(1)"})
		}
	}
	// the same accessor from a start state with many transactions in flight
	for first := range alphaMany {
		if !r.Mine(len(alpha) + first) {
			continue
		}
		st, _ := mc.BFS(r, mc.BFSOpts{Name: "accessor-many-transactions", NEvents: len(alphaMany), MaxDepth: mc.Pick(r, 4, 5), Prefix: []int{first}, CheckPrefix: true,
			EvName: func(e int) string { return alphaMany[e].String() },
			Run: func(body func(mc.Model)) {
				synctest.Test(t, func(t *testing.T) {
					m := newModelMany()
					defer m.close()
					body(m)
					drain(m)
				})
			}})
		r.NonTrivial(fmt.Sprintf("many-transactions first=%s states=%d", alphaMany[first], st))
	}
	r.Add("traces_validated_against_impl", r.Counters["transitions"])
	phase("bfs done")
	vacuumFamily(t, r)
	routingFamily(t, r)
	phase("routing done")
	schedules(t, r)
	phase("schedules done")
	r.Finish(t)
}

// drain lets the vacuum loops and delayed unmanage goroutines finish: the vacuum loop runs
// while `active`, which is never reset, so it is stopped through the shim after time passed.
func drain(m *model) {
	config.VerifStopVacuums(m.acc)
	time.Sleep(2 * time.Minute)
	synctest.Wait()
}

func dataFor(k int) *config.PoliciesData {
	res, err := configuration.UnmarshalPolicyRawData[sharedConfig.PoliciesConfig]([]byte(policiesYAML(k)))
	if err != nil {
		panic(err)
	}
	pd, err := config.BuildPolicyData(res.UnmarshaledData, false)
	if err != nil {
		panic(err)
	}
	return pd
}

type txnObs struct {
	reqMarker, respMarker string
	done                  bool
}

func schedules(t *testing.T, r *mc.Run) {
	pre := mc.Pick(r, 2, 3)
	check := func(x *mc.Exec) (string, string) {
		if x.Horizon {
			return "", ""
		}
		for name, v := range x.Vals {
			o, ok := v.(*txnObs)
			if !ok || !o.done {
				continue
			}
			if o.reqMarker != o.respMarker {
				return "VERSION-CHANGED:concurrent", fmt.Sprintf("transaction %s: request saw %s, response was processed with %s", name, o.reqMarker, o.respMarker)
			}
		}
		return "", ""
	}
	teardown := func(x *mc.Exec) {
		m := x.Vals["m"].(*model)
		config.VerifStopVacuums(m.acc)
		m.close() // the model's scratch directory (one per execution)
	}
	txn := func(x *mc.Exec, m *model, name string, wait time.Duration) {
		o := &txnObs{}
		x.Vals[name] = o
		x.Go(name, func() {
			o.reqMarker = marker(m.acc.GetTxnPoliciesData(config.TxnID(name)))
			x.Yield("between-request-and-response")
			if wait > 0 {
				time.Sleep(wait)
				x.Yield("woke")
			}
			o.respMarker = marker(m.acc.GetTxnPoliciesData(config.TxnID(name)))
			o.done = true
			x.Logf("%s req=%s resp=%s", name, o.reqMarker, o.respMarker)
		})
	}
	reload := func(x *mc.Exec, m *model, name string, k int, delay time.Duration) {
		pd := dataFor(k)
		x.Go(name, func() {
			if delay > 0 {
				time.Sleep(delay)
				x.Yield("woke")
			}
			if err := m.acc.UpdatePoliciesData(pd, false); err != nil {
				x.Logf("%s failed: %v", name, err)
			}
		})
	}
	// (a) a transaction's first look-up races a reload
	mc.Explore(t, r, &mc.SchedOpts{Name: "request-vs-reload", MaxPreempt: pre, MaxT: 0, Check: check, Teardown: teardown,
		Body: func(x *mc.Exec) {
			m := newModel()
			x.Vals["m"] = m
			txn(x, m, "T1", 0)
			reload(x, m, "R", 2, 0)
		}})
	// (b) two overlapping reloads while a transaction is pinned in between
	mc.Explore(t, r, &mc.SchedOpts{Name: "reload-vs-reload-with-pinned-txn", MaxPreempt: pre, MaxT: 0, Check: check, Teardown: teardown,
		Body: func(x *mc.Exec) {
			m := newModel()
			x.Vals["m"] = m
			reload(x, m, "R1", 2, 0)
			reload(x, m, "R2", 3, 0)
			txn(x, m, "T1", 0)
		}})
	// (c) a response exactly at the end of the retention period races the vacuum passes
	mc.Explore(t, r, &mc.SchedOpts{Name: "response-at-30s-vs-vacuum", MaxPreempt: pre, MaxEarlyT: 0, Quantum: 5 * time.Second, MaxT: 9, Check: check, Teardown: teardown,
		Body: func(x *mc.Exec) {
			m := newModel()
			x.Vals["m"] = m
			txn(x, m, "T1", retention)
			reload(x, m, "R", 2, time.Second)
		}})
}
