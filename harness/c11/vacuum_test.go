package c11

// Component-level family: the MapVacuum that implements the retention of transaction pins
// and policy versions.  Every history of {register a new key, clock step 1 s} up to a depth,
// for several (time-to-live, vacuum tick) settings, on the real MapVacuum with its background
// loop in virtual time.  Invariants: a key registered at t is still in the map at every
// instant before t + ttl (a version / pin is never discarded while it can still be needed),
// and it is gone by t + ttl + 2 ticks.

import (
	"fmt"
	"sort"
	"strings"
	"testing"
	"testing/synctest"
	"time"

	"lunar/toolkit-core/clock"
	"lunar/toolkit-core/vacuum"
	"lunar/toolkit-core/verifrt/vsync"
	"verifharness/mc"
)

type vcfg struct{ ttl, tick time.Duration }

func (c vcfg) String() string { return fmt.Sprintf("vacuum ttl=%v tick=%v", c.ttl, c.tick) }

var vcfgs = []vcfg{{3500 * time.Millisecond, 2 * time.Second}, {3 * time.Second, 2 * time.Second}, {5 * time.Second, 2 * time.Second}, {4 * time.Second, 3 * time.Second}}

type vmodel struct {
	c     vcfg
	m     map[int]time.Time
	mu    *vsync.RWMutex
	v     *vacuum.MapVacuum[int, time.Time]
	start time.Time
	n     int
	reg   map[int]time.Time // reference: key -> registration instant
}

func newVModel(c vcfg) *vmodel {
	vm := &vmodel{c: c, m: map[int]time.Time{}, mu: &vsync.RWMutex{}, start: time.Now(), reg: map[int]time.Time{}}
	v := vacuum.NewMapVacuum[int, time.Time]("verif-c11", clock.NewRealClock(), c.ttl, c.tick, vm.m, vm.mu)
	vm.v = &v
	return vm
}

func (vm *vmodel) present() map[int]bool {
	vm.mu.RLock()
	defer vm.mu.RUnlock()
	p := map[int]bool{}
	for k := range vm.m {
		p[k] = true
	}
	return p
}

// Apply: event 0 = register a new key, 1 = clock step 1 s.
func (vm *vmodel) Apply(ev int) string {
	now := time.Now()
	if ev == 0 {
		vm.n++
		vm.mu.Lock()
		vm.m[vm.n] = now
		vm.mu.Unlock()
		vm.v.VacuumKey(vm.n)
		vm.reg[vm.n] = now
	} else {
		time.Sleep(time.Second)
		synctest.Wait()
		now = time.Now()
	}
	p := vm.present()
	for k, at := range vm.reg {
		age := now.Sub(at)
		if !p[k] && age < vm.c.ttl {
			return fmt.Sprintf("EARLY-REMOVAL:vacuum key %d registered at +%v was removed by +%v, only %v after its registration (time-to-live %v)", k, at.Sub(vm.start), now.Sub(vm.start), age, vm.c.ttl)
		}
		if p[k] && age > vm.c.ttl+2*vm.c.tick {
			return fmt.Sprintf("NEVER-REMOVED:vacuum key %d registered at +%v is still present at +%v, %v after its registration (time-to-live %v, tick %v)", k, at.Sub(vm.start), now.Sub(vm.start), age, vm.c.ttl, vm.c.tick)
		}
	}
	return ""
}

func (vm *vmodel) Key() string {
	now := time.Now()
	p := vm.present()
	var ks []string
	for k, at := range vm.reg {
		if now.Sub(at) > vm.c.ttl+3*vm.c.tick && !p[k] {
			continue
		}
		ks = append(ks, fmt.Sprintf("%v:%v", now.Sub(at), p[k]))
	}
	sort.Strings(ks)
	// the phase of the background loop is fixed by the first registration
	return fmt.Sprintf("t=%v|%s", now.Sub(vm.start), strings.Join(ks, ","))
}

func vacuumFamily(t *testing.T, r *mc.Run) {
	depth := mc.Pick(r, 12, 15)
	for i, c := range vcfgs {
		if !r.Mine(1000 + i) {
			continue
		}
		st, tr := mc.BFS(r, mc.BFSOpts{Name: c.String(), NEvents: 2, MaxDepth: depth,
			EvName: func(e int) string { return []string{"register", "tick(1s)"}[e] },
			Run: func(body func(mc.Model)) {
				synctest.Test(t, func(t *testing.T) {
					vm := newVModel(c)
					body(vm)
					vm.v.VerifStop()
					time.Sleep(time.Minute)
					synctest.Wait()
				})
			}})
		r.NonTrivial(fmt.Sprintf("%s states=%d", c, st))
		r.Outcome(fmt.Sprintf("vacuum states=%d", st))
		if i == 0 {
			r.Sample(map[string]any{"config": c.String(), "states": st, "transitions": tr})
		}
	}
}

func replayVacuum(t *testing.T, model string, path []int) bool {
	for _, c := range vcfgs {
		if c.String() != model {
			continue
		}
		synctest.Test(t, func(t *testing.T) {
			vm := newVModel(c)
			for i, e := range path {
				fail := vm.Apply(e)
				fmt.Printf("%2d %-9s -> %q  %s\n", i, []string{"register", "tick(1s)"}[e], fail, vm.Key())
				if fail != "" {
					t.Fail()
				}
			}
			vm.v.VerifStop()
			time.Sleep(time.Minute)
			synctest.Wait()
		})
		return true
	}
	return false
}
