// C06 — queued requests: one verdict within TTL, priority order, bounded queue.
// Engine: schedx — all schedules (bounded preemptions / early timers) of arrivals through a
// real engine whose flow contains the real Queue processor (its process / TTL / removal
// goroutines running), a fixed-window quota, optional shutdown; virtual time.
package c06

import (
	"context"
	"fmt"
	lunarcontext "lunar/engine/streams/lunar-context"
	publictypes "lunar/engine/streams/public-types"
	"os"
	"sort"
	"strings"
	"testing"
	"time"

	"lunar/engine/streams/processors"
	streamtypes "lunar/engine/streams/types"
	contextmanager "lunar/toolkit-core/context-manager"
	rt "lunar/toolkit-core/verifrt"
	"verifharness/eng"
	"verifharness/mc"
)

type arrival struct {
	Name  string
	Group string // priority group header value: "hi" (1), "lo" (2)
	Delay time.Duration
	Via   string // "" = the (first) queue flow; "b" = the second queue flow of a TwoFlows scenario
}

type scenario struct {
	Name      string
	QuotaW    int // quota window in seconds (0 = 1)
	QuotaMax  int
	QueueSize int
	TTL       time.Duration
	Arrivals  []arrival
	Shutdown  time.Duration // 0 = no shutdown; otherwise the instant the engine context is cancelled
	// TwoFlows: two flows (h.com/a/*, h.com/b/*), each with its own Queue processor, attached
	// to the same quota
	TwoFlows bool
}

func prio(g string) int {
	if g == "hi" {
		return 1
	}
	return 2
}

func (sc scenario) window() time.Duration {
	if sc.QuotaW == 0 {
		return time.Second
	}
	return time.Duration(sc.QuotaW) * time.Second
}

func quotaYAML(sc scenario) string {
	return fmt.Sprintf("quotas:\n  - id: Q\n    filter:\n      url: h.com/*\n    strategy:\n      fixed_window:\n        max: %d\n        interval: %d\n        interval_unit: second\n", sc.QuotaMax, int(sc.window()/time.Second))
}

func flowYAML(sc scenario) string { return flowYAMLFor(sc, "qflow", "h.com/*") }

func flowYAMLFor(sc scenario, name, url string) string {
	return fmt.Sprintf(`name: %s
filter:
  url: %s
processors:
  Qu:
    processor: Queue
    parameters:
      - key: quota_id
        value: Q
      - key: queue_size
        value: %d
      - key: ttl_seconds
        value: %d
      - key: priority_group_by_header
        value: x-prio
      - key: priority_groups
        value:
          hi: 1
          lo: 2
  G:
    processor: GenerateResponse
    parameters:
      - key: status
        value: 429
flow:
  request:
    - from:
        stream:
          name: globalStream
          at: start
      to:
        processor:
          name: Qu
    - from:
        processor:
          name: Qu
          condition: blocked
      to:
        processor:
          name: G
    - from:
        processor:
          name: Qu
          condition: allowed
      to:
        stream:
          name: globalStream
          at: end
  response:
    - from:
        processor:
          name: G
      to:
        stream:
          name: globalStream
          at: end
`, name, url, sc.QueueSize, int(sc.TTL/time.Second))
}

type reqObs struct {
	a          arrival
	started    bool
	startAt    time.Duration
	returned   bool
	allowed    bool
	returnAt   time.Duration
	waitingAt  time.Duration // first quiescent point at which it was parked waiting for its verdict (-1)
	signalSeq  int           // quiescent index at which its verdict became available (-1)
	signalAt   time.Duration
	verdictErr string
}

type state struct {
	reqs   []*reqObs
	cancel context.CancelFunc
	qi     int
	down   bool
}

const tick = 100 * time.Millisecond

func build(sc scenario) *mc.SchedOpts {
	os.Setenv("LUNAR_SPOE_PROCESSING_TIMEOUT_SEC", "30")
	horizon := sc.TTL + 1500*time.Millisecond
	for _, a := range sc.Arrivals {
		if a.Delay+sc.TTL+1500*time.Millisecond > horizon {
			horizon = a.Delay + sc.TTL + 1500*time.Millisecond
		}
	}
	return &mc.SchedOpts{
		Name:     sc.Name,
		MaxSteps: 3000,
		Quantum:  tick,
		MaxT:     int(horizon / tick),
		Focus:    []string{"lunar/engine/streams/processors/queue", "lunar/engine/streams/lunar-context.(*memoryQueue)", "lunar/engine/streams/resources/quota"},
		Body: func(x *mc.Exec) {
			ctx, cancel := context.WithCancel(context.Background())
			contextmanager.Get().WithContext(ctx)
			flows := map[string]string{"q.yaml": flowYAML(sc)}
			var created []string
			if sc.TwoFlows {
				rekey := func(y, key string) string {
					return strings.ReplaceAll(strings.ReplaceAll(y, "  Qu:\n", "  "+key+":\n"), "name: Qu\n", "name: "+key+"\n")
				}
				flows = map[string]string{"qa.yaml": rekey(flowYAMLFor(sc, "qflowA", "h.com/a/*"), "QuA"), "qb.yaml": rekey(flowYAMLFor(sc, "qflowB", "h.com/b/*"), "QuB")}
				// the engine creates the processors of its flows in Go map order; the arrivals
				// are addressed to "the queue processor created first / second", so that the
				// execution is the same function of the schedule whatever that order is
				processors.VerifInstall(nil, func(md *streamtypes.ProcessorMetaData, p streamtypes.ProcessorI) streamtypes.ProcessorI {
					if strings.HasPrefix(md.Name, "Qu") {
						created = append(created, md.Name)
					}
					return p
				})
			}
			s, _, err := eng.NewStream(eng.Files{Flows: flows, Quotas: map[string]string{"q.yaml": quotaYAML(sc)}})
			if sc.TwoFlows {
				processors.VerifInstall(nil, nil)
			}
			if err != nil {
				panic("engine did not load: " + err.Error())
			}
			st := &state{cancel: cancel}
			x.Vals["st"] = st
			for i := range sc.Arrivals {
				ro := &reqObs{a: sc.Arrivals[i], waitingAt: -1, signalSeq: -1}
				st.reqs = append(st.reqs, ro)
				x.Go(ro.a.Name, func() {
					if ro.a.Delay > 0 {
						time.Sleep(ro.a.Delay)
						rt.PointL(rt.OpHarness, 0, "arrives", nil)
					}
					ro.started, ro.startAt = true, x.Now()
					url := "h.com/a/1"
					if sc.TwoFlows {
						first, second := "h.com/a/1", "h.com/b/1"
						if len(created) > 0 && created[0] == "QuB" {
							first, second = second, first
						}
						url = first
						if ro.a.Via == "b" {
							url = second
						}
					}
					v := eng.OnRequest(s, eng.Req{ID: ro.a.Name, URL: url, Headers: map[string]string{"x-prio": ro.a.Group}})
					ro.returned, ro.allowed, ro.returnAt, ro.verdictErr = true, !v.Early && v.Err == "", x.Now(), v.Err
					x.Logf("%s(%s) -> %s after %v", ro.a.Name, ro.a.Group, v, ro.returnAt-ro.startAt)
				})
			}
			if sc.Shutdown > 0 {
				x.Go("shutdown", func() {
					time.Sleep(sc.Shutdown)
					rt.PointL(rt.OpHarness, 0, "cancel", nil)
					st.down = true
					cancel()
					x.Logf("shutdown")
				})
			}
		},
		OnQuiescent: func(x *mc.Exec) { invariant(x, sc) },
		Check:       func(x *mc.Exec) (string, string) { return final(x, sc) },
		Teardown:    func(x *mc.Exec) { x.Vals["st"].(*state).cancel() },
	}
}

func invariant(x *mc.Exec, sc scenario) {
	st := x.Vals["st"].(*state)
	st.qi++
	now := x.Now()
	waiting := 0
	parked := map[string]mc.ParkView{}
	for _, p := range x.Parked() {
		parked[p.Name] = p
	}
	for _, ro := range st.reqs {
		p, isParked := parked[ro.a.Name]
		atWait := isParked && p.Op == rt.OpWgWait
		if atWait && ro.waitingAt < 0 {
			ro.waitingAt = now
		}
		if ro.signalSeq < 0 && ((atWait && p.Enabled) || (ro.returned && ro.waitingAt >= 0)) {
			ro.signalSeq, ro.signalAt = st.qi, now
		}
		if atWait && !p.Enabled {
			waiting++
		}
	}
	if waiting > sc.QueueSize {
		x.Fail("QUEUE-SIZE", fmt.Sprintf("%d requests are waiting in the queue, queue_size is %d", waiting, sc.QueueSize))
	}
}

func final(x *mc.Exec, sc scenario) (string, string) {
	st := x.Vals["st"].(*state)
	if x.Horizon {
		// the execution was cut at its horizon: the only thing that can be judged is a request
		// that is already overdue (the horizon lies 1.5 s of virtual time after the last TTL)
		for _, ro := range st.reqs {
			if ro.started && !ro.returned && !st.down && x.Now()-ro.startAt > sc.TTL+4*tick {
				return "NO-VERDICT", fmt.Sprintf("%s reached the queue processor at %v and has no verdict at %v (ttl %v)", ro.a.Name, ro.startAt, x.Now(), sc.TTL)
			}
		}
		return "", ""
	}
	var allowed []*reqObs
	for _, ro := range st.reqs {
		if !ro.started {
			continue
		}
		if !ro.returned {
			return "NO-VERDICT", fmt.Sprintf("%s reached the queue processor at %v but never got a verdict (now %v, ttl %v)", ro.a.Name, ro.startAt, x.Now(), sc.TTL)
		}
		if ro.verdictErr != "" {
			return "ERROR", ro.a.Name + ": " + ro.verdictErr
		}
		if ro.returnAt-ro.startAt > sc.TTL+4*tick {
			return "LATE-VERDICT", fmt.Sprintf("%s got its verdict %v after arriving, ttl %v", ro.a.Name, ro.returnAt-ro.startAt, sc.TTL)
		}
		if ro.allowed {
			allowed = append(allowed, ro)
		} else if !st.down && ro.returnAt-ro.startAt < sc.TTL {
			// rejected before its TTL (the processor found the queue full, possibly because a
			// finished request had not been unregistered yet): the statement does not restrict
			// rejections, so this is only recorded as an outcome
			x.Logf("%s rejected before its ttl", ro.a.Name)
		}
	}
	// quota: allowed requests must fit into 1 s windows with at most QuotaMax each
	var rec func(i int, used map[int64]int) bool
	rec = func(i int, used map[int64]int) bool {
		if i == len(allowed) {
			return true
		}
		for w := int64(allowed[i].startAt / sc.window()); w <= int64(allowed[i].returnAt/sc.window()); w++ {
			if used[w] < sc.QuotaMax {
				used[w]++
				if rec(i+1, used) {
					return true
				}
				used[w]--
			}
		}
		return false
	}
	if !rec(0, map[int64]int{}) {
		var d []string
		for _, a := range allowed {
			d = append(d, fmt.Sprintf("%s[%v..%v]", a.a.Name, a.startAt, a.returnAt))
		}
		return "OVER-QUOTA", fmt.Sprintf("allowed %v cannot be placed into quota windows with at most %d each", d, sc.QuotaMax)
	}
	// order
	sort.Slice(allowed, func(i, j int) bool { return allowed[i].signalSeq < allowed[j].signalSeq })
	for _, y := range allowed {
		if y.signalSeq < 0 {
			continue
		}
		for _, xr := range st.reqs {
			if xr == y || xr.waitingAt < 0 {
				continue
			}
			// xr was waiting when y's verdict was signalled, not yet signalled itself, unexpired
			// (strictly earlier instant: the pass that admitted y runs at one virtual instant, so xr
			// was in the queue when that pass began)
			if xr.waitingAt < y.signalAt && (xr.signalSeq < 0 || xr.signalSeq > y.signalSeq) && y.signalAt < xr.startAt+sc.TTL {
				// same priority: xr counts as the earlier arrival only if it was already waiting in the
				// queue strictly before y even reached the processor
				better := prio(xr.a.Group) < prio(y.a.Group) || (prio(xr.a.Group) == prio(y.a.Group) && xr.waitingAt < y.startAt)
				if better {
					clause := "ORDER:priority"
					if prio(xr.a.Group) == prio(y.a.Group) {
						clause = "ORDER:fifo-within-priority"
					}
					return clause, fmt.Sprintf("%s (priority %d, arrived %v) was admitted at %v while %s (priority %d, arrived %v) was still waiting",
						y.a.Name, prio(y.a.Group), y.startAt, y.signalAt, xr.a.Name, prio(xr.a.Group), xr.startAt)
				}
			}
		}
	}
	return "", ""
}

func scenarios(thorough bool) []scenario {
	sc := []scenario{
		{Name: "two-arrivals-size1", QuotaMax: 1, QueueSize: 1, TTL: time.Second, Arrivals: []arrival{{Name: "A", Group: "lo", Delay: 0}, {Name: "B", Group: "lo", Delay: 0}}},
		{Name: "lo-then-hi", QuotaMax: 1, QueueSize: 2, TTL: 2 * time.Second, Arrivals: []arrival{{Name: "L", Group: "lo", Delay: 0}, {Name: "H", Group: "hi", Delay: time.Millisecond}}},
		{Name: "earlier-then-later-same-priority", QuotaMax: 2, QueueSize: 2, TTL: time.Second, Arrivals: []arrival{{Name: "A", Group: "lo", Delay: 0}, {Name: "B", Group: "lo", Delay: 300 * time.Millisecond}}},
		{Name: "timeout-then-refill-size1", QuotaW: 3, QuotaMax: 1, QueueSize: 1, TTL: time.Second, Arrivals: []arrival{{Name: "R0", Group: "lo", Delay: 0}, {Name: "A", Group: "lo", Delay: 150 * time.Millisecond}, {Name: "B", Group: "lo", Delay: 1300 * time.Millisecond}, {Name: "C", Group: "lo", Delay: 1400 * time.Millisecond}}},
		// a waiter whose TTL ends exactly at one of the loop's attempts, while the quota is
		// still exhausted (window 3 s): expiry and a blocked attempt on the same request coincide
		{Name: "ttl-expiry-during-blocked-attempt", QuotaW: 3, QuotaMax: 1, QueueSize: 1, TTL: time.Second, Arrivals: []arrival{{Name: "R0", Group: "lo", Delay: 0}, {Name: "A", Group: "lo", Delay: 0}}},
		{Name: "shutdown-with-waiter", QuotaMax: 1, QueueSize: 2, TTL: 2 * time.Second, Arrivals: []arrival{{Name: "A", Group: "lo", Delay: 0}, {Name: "B", Group: "lo", Delay: time.Millisecond}}, Shutdown: 250 * time.Millisecond},
		// two waiters of one priority behind an admitted request: the first waiter is popped
		// while the quota is still blocked and put back (it must keep its place)
		{Name: "fifo-three-same-priority", QuotaMax: 1, QueueSize: 3, TTL: 3 * time.Second, Arrivals: []arrival{{Name: "A", Group: "lo", Delay: 0}, {Name: "X", Group: "lo", Delay: time.Millisecond}, {Name: "Y", Group: "lo", Delay: 2 * time.Millisecond}}},
	}
	if thorough {
		sc = append(sc,
			scenario{Name: "three-arrivals-size2", QuotaMax: 1, QueueSize: 2, TTL: time.Second, Arrivals: []arrival{{Name: "A", Group: "lo", Delay: 0}, {Name: "B", Group: "hi", Delay: 0}, {Name: "C", Group: "lo", Delay: time.Millisecond}}})
	}
	return sc
}

// instants at which a time-to-live of the scenario ends (one per 100 ms slot), rounded down to
// the loop's 100 ms grid: the window explored is the slot the expiry falls into
func instants(sc scenario) []time.Duration {
	seen := map[time.Duration]bool{}
	var out []time.Duration
	for _, a := range sc.Arrivals {
		d := (a.Delay + sc.TTL) / tick * tick
		if !seen[d] {
			seen[d] = true
			out = append(out, d)
		}
	}
	sort.Slice(out, func(i, j int) bool { return out[i] < out[j] })
	return out
}

type replay struct {
	Scenario string `json:"scenario"`
	Choices  []int  `json:"choices"`
}

func TestCheck(t *testing.T) {
	r := mc.New("C06", "exploration")
	if f := mc.ReplayFile(); f != "" {
		var rp replay
		if err := mc.LoadReplay(f, &rp); err != nil {
			t.Fatal(err)
		}
		if rp.Scenario == "queue-level-two" {
			var qr queueReplay
			if err := mc.LoadReplay(f, &qr); err != nil {
				t.Fatal(err)
			}
			rr := mc.New("C06", "exploration")
			twoQueuesCase(t, rr, qr.Priorities)
			fmt.Printf("two Queue processors on one quota, arrivals %v: violations=%d\n", qr.Priorities, rr.NumFindings())
			if rr.NumFindings() > 0 {
				t.Fail()
			}
			return
		}
		if rp.Scenario == "queue-level" {
			var qr queueReplay
			if err := mc.LoadReplay(f, &qr); err != nil {
				t.Fatal(err)
			}
			rr := mc.New("C06", "exploration")
			queueCase(t, rr, qr.Priorities, qr.Split, qr.RemoveA, qr.RemoveB)
			fmt.Printf("queue-level case priorities=%v removals %d,%d after arrival %d: violations=%d\n", qr.Priorities, qr.RemoveA, qr.RemoveB, qr.Split, rr.NumFindings())
			if rr.NumFindings() > 0 {
				t.Fail()
			}
			return
		}
		for _, sc := range scenarios(true) {
			if sc.Name == strings.SplitN(rp.Scenario, "@", 2)[0] {
				if k := mc.ReplaySchedule(t, build(sc), rp.Choices); k != "" {
					t.Fail()
				}
			}
		}
		return
	}
	if n := os.Getenv("VERIF_TRACE_SCENARIO"); n != "" {
		for _, sc := range scenarios(true) {
			if sc.Name == n {
				mc.ReplaySchedule(t, build(sc), nil)
			}
		}
		return
	}
	pre := mc.Pick(r, 1, 2)
	et := 1
	var names []string
	for _, sc := range scenarios(r.Thorough()) {
		names = append(names, sc.Name)
	}
	r.Rule = fmt.Sprintf("all schedules of scenarios %s (arrival goroutines with priority groups through a real engine's Queue processor with its process / TTL / removal goroutines, quota 1 per second, optional shutdown) with <=%d preemptions and <=%d early time steps, time quantum 100 ms, once from the start under an execution cap and once per 100 ms slot in which a time-to-live ends, with the deviations confined to that slot; scheduling decisions at sync operations of processors/queue, the in-memory shared queue and the quota; distinct = observation logs (verdicts and waiting times)", strings.Join(names, ","), pre, et)
	r.Assume("virtual time; native channel operations are not split", "admission order is observed as the order in which waiters' verdicts become available")
	if r.Parallel(t, 16) {
		r.Finish(t)
		return
	}
	queueLevel(t, r)
	twoQueues(t, r)
	for _, sc := range scenarios(r.Thorough()) {
		o := build(sc)
		o.MaxPreempt, o.MaxEarlyT = pre, et
		o.MaxExecutions = int64(mc.Pick(r, 2500, 60000))
		mc.Explore(t, r, o)
		// the same scenario explored around each instant at which a time-to-live ends: all
		// schedules (same bounds) whose deviations from the default fall into that 100 ms
		// slot; every other decision takes the default.
		for _, at := range instants(sc) {
			o := build(sc)
			o.Name = fmt.Sprintf("%s@%v", sc.Name, at)
			o.MaxPreempt, o.MaxEarlyT = pre, et
			o.BranchFrom, o.BranchUntil = at, at+tick-time.Nanosecond
			o.MaxExecutions = int64(mc.Pick(r, 4000, 200000))
			mc.Explore(t, r, o)
		}
	}
	r.Finish(t)
}

// queueLevel: the in-memory shared queue the Queue processor waits in, driven sequentially:
// n <= 6 (thorough 7) arrivals with priorities from {1,2,3} in every priority assignment, then the
// removal of every subset of <= 2 waiters (a waiter whose TTL expired is removed from the middle
// of the queue), either after all arrivals or after the first k, then everything is
// dequeued.  The dequeue order must be (priority, arrival).
func queueLevel(t *testing.T, r *mc.Run) {
	maxN := mc.Pick(r, 6, 7)
	idx := 0
	for n := 1; n <= maxN; n++ {
		prios := make([]int, n)
		for {
			for split := 1; split <= n; split++ { // removals happen after the first `split` arrivals
				for a := -1; a < split; a++ {
					for b := a; b < split; b++ {
						if a == -1 && b != -1 {
							continue
						}
						if a >= 0 && b == a && false {
							continue
						}
						idx++
						if !r.Mine(idx) {
							continue
						}
						queueCase(t, r, prios, split, a, b)
					}
				}
			}
			k := n - 1
			for k >= 0 {
				prios[k]++
				if prios[k] < 3 {
					break
				}
				prios[k] = 0
				k--
			}
			if k < 0 {
				break
			}
		}
	}
}

// twoQueues: two Queue processors attached to the same quota obtain their waiting queues the
// way the processor's constructor does (SharedMemory.NewQueue(quota id, ttl)) from one shared
// memory.  Every assignment of n <= 5 (thorough 6) arrivals with priorities {1,2} to the two
// processors: each queue must hand out exactly its own requests in (priority, arrival) order.
func twoQueues(t *testing.T, r *mc.Run) {
	maxN := mc.Pick(r, 5, 6)
	idx := 1 << 24
	for n := 2; n <= maxN; n++ {
		mc.Sequences(4, n, func(l []int) bool {
			if len(l) != n {
				return true
			}
			idx++
			if !r.Mine(idx) {
				return true
			}
			twoQueuesCase(t, r, l)
			return true
		})
	}
}

func twoQueuesCase(t *testing.T, r *mc.Run, l []int) {
	n := len(l)
	{
		{
			var got, want [2][]string
			mc.Bubble(t, func(t *testing.T) {
				st := lunarcontext.NewMemoryState[string]()
				qs := [2]publictypes.SharedQueueI{st.NewQueue("Q", time.Minute), st.NewQueue("Q", time.Minute)}
				type w struct {
					id   string
					p, i int
				}
				var live [2][]w
				for i, x := range l {
					which, p := x%2, x/2+1
					id := fmt.Sprintf("r%d", i)
					qs[which].Enqueue(id, float64(p))
					live[which] = append(live[which], w{id, p, i})
					time.Sleep(time.Microsecond)
				}
				for k := 0; k < 2; k++ {
					sort.SliceStable(live[k], func(i, j int) bool {
						if live[k][i].p != live[k][j].p {
							return live[k][i].p < live[k][j].p
						}
						return live[k][i].i < live[k][j].i
					})
					for _, x := range live[k] {
						want[k] = append(want[k], x.id)
					}
					for i := 0; i <= n; i++ {
						id := qs[k].DequeueIfValueRelevant()
						if id == "" {
							break
						}
						got[k] = append(got[k], id)
					}
				}
			})
			r.Add("queue_level_cases", 1)
			r.NonTrivial(fmt.Sprintf("two-queues|%v", l))
			if fmt.Sprint(got) != fmt.Sprint(want) {
				r.Violation("ORDER:queue-level:two-processors-one-quota", fmt.Sprintf("two Queue processors on one quota: arrivals (processor, priority) %v: the processors' queues handed out %v, expected %v", l, got, want),
					queueReplay{Scenario: "queue-level-two", Priorities: append([]int{}, l...)})
			}
		}
	}
}

type queueReplay struct {
	Scenario   string `json:"scenario"`
	Priorities []int  `json:"priorities"`
	Split      int    `json:"removals_after_arrival"`
	RemoveA    int    `json:"remove_a"`
	RemoveB    int    `json:"remove_b"`
}

func queueCase(t *testing.T, r *mc.Run, prios []int, split, ra, rb int) {
	var got, want []string
	mc.Bubble(t, func(t *testing.T) {
		q := lunarcontext.NewMemoryQueue("q", time.Minute)
		type w struct {
			id   string
			p, i int
		}
		var live []w
		enq := func(i int) {
			id := fmt.Sprintf("r%d", i)
			q.Enqueue(id, float64(prios[i]+1))
			live = append(live, w{id, prios[i] + 1, i})
			time.Sleep(time.Microsecond)
		}
		for i := 0; i < split; i++ {
			enq(i)
		}
		for _, x := range []int{ra, rb} {
			if x < 0 {
				continue
			}
			id := fmt.Sprintf("r%d", x)
			q.Remove(id)
			for j := range live {
				if live[j].id == id {
					live = append(live[:j], live[j+1:]...)
					break
				}
			}
		}
		for i := split; i < len(prios); i++ {
			enq(i)
		}
		sort.SliceStable(live, func(i, j int) bool {
			if live[i].p != live[j].p {
				return live[i].p < live[j].p
			}
			return live[i].i < live[j].i
		})
		for _, x := range live {
			want = append(want, fmt.Sprintf("%s/p%d", x.id, x.p))
		}
		pr := map[string]int{}
		for i, p := range prios {
			pr[fmt.Sprintf("r%d", i)] = p + 1
		}
		for i := 0; i <= len(prios); i++ {
			id := q.DequeueIfValueRelevant()
			if id == "" {
				break
			}
			got = append(got, fmt.Sprintf("%s/p%d", id, pr[id]))
		}
	})
	r.Add("queue_level_cases", 1)
	if ra >= 0 {
		r.NonTrivial(fmt.Sprintf("queue|%v|%d|%d|%d", prios, split, ra, rb))
	}
	if strings.Join(got, " ") != strings.Join(want, " ") {
		clause := "ORDER:queue-level"
		if ra >= 0 {
			clause = "ORDER:queue-level:after-removal"
		}
		r.Violation(clause, fmt.Sprintf("shared queue: arrivals with priorities %v (1 = first), waiters %d,%d removed after arrival %d: dequeued %v, expected %v", prios, ra, rb, split, got, want),
			queueReplay{"queue-level", prios, split, ra, rb})
	}
}
