// Package flowgen enumerates small flow graphs over the VerifProbe processor, renders them as
// flow YAML, and interprets them with an independent reference walker (C04, C05).
package flowgen

import (
	"fmt"
	"strings"
)

// End is the target index of a connection to the stream end.
const End = -1

type Edge struct {
	Cond string
	To   int // node index or End
}

// Graph is one direction of a flow: Nodes[i] is a processor key, Root the node connected to
// the stream start (-1 = no root), Edges[i] node i's outgoing connections in declaration order.
type Graph struct {
	Nodes []string
	Root  int
	Edges [][]Edge
}

func (g Graph) String() string {
	var sb strings.Builder
	if g.Root >= 0 {
		fmt.Fprintf(&sb, "start->%s;", g.Nodes[g.Root])
	}
	for i, es := range g.Edges {
		for _, e := range es {
			t := "end"
			if e.To >= 0 {
				t = g.Nodes[e.To]
			}
			c := ""
			if e.Cond != "" {
				c = "[" + e.Cond + "]"
			}
			fmt.Fprintf(&sb, "%s%s->%s;", g.Nodes[i], c, t)
		}
	}
	return sb.String()
}

// Connections renders the connection list of one direction (YAML, indented for "flow:").
func (g Graph) Connections() string {
	var sb strings.Builder
	if g.Root >= 0 {
		fmt.Fprintf(&sb, "    - from:\n        stream:\n          name: globalStream\n          at: start\n      to:\n        processor:\n          name: %s\n", g.Nodes[g.Root])
	}
	for i, es := range g.Edges {
		for _, e := range es {
			fmt.Fprintf(&sb, "    - from:\n        processor:\n          name: %s\n", g.Nodes[i])
			if e.Cond != "" {
				fmt.Fprintf(&sb, "          condition: %s\n", e.Cond)
			}
			if e.To >= 0 {
				fmt.Fprintf(&sb, "      to:\n        processor:\n          name: %s\n", g.Nodes[e.To])
			} else {
				sb.WriteString("      to:\n        stream:\n          name: globalStream\n          at: end\n")
			}
		}
	}
	return sb.String()
}

// FlowYAML renders a flow whose processors are all VerifProbe.
func FlowYAML(name, url string, req, res Graph) string {
	keys := map[string]bool{}
	var order []string
	for _, g := range []Graph{req, res} {
		for _, k := range g.Nodes {
			if !keys[k] {
				keys[k] = true
				order = append(order, k)
			}
		}
	}
	var sb strings.Builder
	fmt.Fprintf(&sb, "name: %s\nfilter:\n  url: %s\nprocessors:\n", name, url)
	for _, k := range order {
		fmt.Fprintf(&sb, "  %s:\n    processor: VerifProbe\n", k)
	}
	sb.WriteString("flow:\n  request:\n")
	sb.WriteString(req.Connections())
	if rc := res.Connections(); rc != "" {
		sb.WriteString("  response:\n")
		sb.WriteString(rc)
	}
	return sb.String()
}

// Reachable reports whether every node is reachable from the root through processor edges.
func (g Graph) Reachable() bool {
	if g.Root < 0 {
		return false
	}
	seen := make([]bool, len(g.Nodes))
	var dfs func(i int)
	dfs = func(i int) {
		if seen[i] {
			return
		}
		seen[i] = true
		for _, e := range g.Edges[i] {
			if e.To >= 0 {
				dfs(e.To)
			}
		}
	}
	dfs(g.Root)
	for _, s := range seen {
		if !s {
			return false
		}
	}
	return true
}

// Cyclic reports whether the processor edges contain a cycle (anywhere).
func (g Graph) Cyclic() bool {
	state := make([]int, len(g.Nodes))
	var dfs func(i int) bool
	dfs = func(i int) bool {
		state[i] = 1
		for _, e := range g.Edges[i] {
			if e.To < 0 {
				continue
			}
			if state[e.To] == 1 || (state[e.To] == 0 && dfs(e.To)) {
				return true
			}
		}
		state[i] = 2
		return false
	}
	for i := range g.Nodes {
		if state[i] == 0 && dfs(i) {
			return true
		}
	}
	return false
}

// EdgeLists enumerates ordered lists (length 0..maxLen, no duplicate entries) over opts.
func EdgeLists(opts []Edge, maxLen int) [][]Edge {
	out := [][]Edge{{}}
	var rec func(cur []Edge)
	rec = func(cur []Edge) {
		if len(cur) == maxLen {
			return
		}
		for _, o := range opts {
			dup := false
			for _, c := range cur {
				if c == o {
					dup = true
				}
			}
			if dup {
				continue
			}
			n := append(append([]Edge{}, cur...), o)
			out = append(out, n)
			rec(n)
		}
	}
	rec(nil)
	return out
}

// Forward enumerates graphs over the given node keys with root = node 0 whose processor
// edges only go to later nodes (acyclic by construction) or to the stream end; every node
// reachable.  f is called for each graph.
func Forward(keys []string, conds []string, maxEdges int, f func(Graph)) {
	n := len(keys)
	per := make([][][]Edge, n)
	for i := 0; i < n; i++ {
		var opts []Edge
		for _, c := range conds {
			for j := i + 1; j < n; j++ {
				opts = append(opts, Edge{c, j})
			}
			opts = append(opts, Edge{c, End})
		}
		per[i] = EdgeLists(opts, maxEdges)
	}
	idx := make([]int, n)
	for {
		g := Graph{Nodes: keys, Root: 0, Edges: make([][]Edge, n)}
		for i := range idx {
			g.Edges[i] = per[i][idx[i]]
		}
		if g.Reachable() {
			f(g)
		}
		k := n - 1
		for k >= 0 {
			idx[k]++
			if idx[k] < len(per[k]) {
				break
			}
			idx[k] = 0
			k--
		}
		if k < 0 {
			return
		}
	}
}

// ---- reference interpreter (written from the statement, not from the engine) -------------

// Out gives a node's output for a direction: a condition name, "" or "early".
type Out func(dir, key string) string

// WalkReq returns the request-direction execution order and the index of the node that
// answered the request itself (-1 = none).
func WalkReq(g Graph, out Out) (order []string, early int) {
	early = -1
	if g.Root < 0 {
		return
	}
	var walk func(i int) bool
	walk = func(i int) bool {
		order = append(order, g.Nodes[i])
		o := out("req", g.Nodes[i])
		if o == "early" {
			early = i
			return true // the rest of the request path is skipped
		}
		for _, e := range g.Edges[i] {
			if e.Cond == o && e.To >= 0 {
				if walk(e.To) {
					return true
				}
			}
		}
		return false
	}
	walk(g.Root)
	return
}

// WalkRes returns the response-direction execution order starting at node `from`
// (from < 0: the root).
func WalkRes(g Graph, out Out, from int) (order []string) {
	start := from
	if start < 0 {
		start = g.Root
	}
	if start < 0 {
		return
	}
	var walk func(i int)
	walk = func(i int) {
		order = append(order, g.Nodes[i])
		o := out("res", g.Nodes[i])
		if o == "early" {
			o = ""
		}
		for _, e := range g.Edges[i] {
			if e.Cond == o && e.To >= 0 {
				walk(e.To)
			}
		}
	}
	walk(start)
	return
}

// Index returns the index of key in g.Nodes (-1 if absent).
func (g Graph) Index(key string) int {
	for i, k := range g.Nodes {
		if k == key {
			return i
		}
	}
	return -1
}
