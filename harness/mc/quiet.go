package mc

import (
	"os"

	"github.com/rs/zerolog"
)

// The repo logs through zerolog's global logger; silence it unless VERIF_LOG is set.
func init() {
	if os.Getenv("VERIF_LOG") == "" {
		zerolog.SetGlobalLevel(zerolog.Disabled)
	}
}
