package mc

// Sequences calls f with every sequence over {0..n-1} of length 0..maxLen, in
// order of increasing length and lexicographically within one length (simplest
// first).  The slice passed to f is reused.  f returning false stops the walk.
func Sequences(n, maxLen int, f func(idx []int) bool) {
	for l := 0; l <= maxLen; l++ {
		idx := make([]int, l)
		for {
			if !f(idx) {
				return
			}
			i := l - 1
			for i >= 0 {
				idx[i]++
				if idx[i] < n {
					break
				}
				idx[i] = 0
				i--
			}
			if i < 0 {
				break
			}
		}
	}
}

// Permutations calls f with every permutation of 0..n-1 (slice reused).
func Permutations(n int, f func(p []int) bool) {
	p := make([]int, n)
	for i := range p {
		p[i] = i
	}
	var rec func(k int) bool
	rec = func(k int) bool {
		if k == n {
			return f(p)
		}
		for i := k; i < n; i++ {
			p[k], p[i] = p[i], p[k]
			if !rec(k + 1) {
				return false
			}
			p[k], p[i] = p[i], p[k]
		}
		return true
	}
	rec(0)
}

// Subsets calls f with every subset of 0..n-1 of size lo..hi (ascending size).
func Subsets(n, lo, hi int, f func(s []int) bool) {
	for k := lo; k <= hi && k <= n; k++ {
		s := make([]int, k)
		var rec func(start, d int) bool
		rec = func(start, d int) bool {
			if d == k {
				return f(s)
			}
			for i := start; i < n; i++ {
				s[d] = i
				if !rec(i+1, d+1) {
					return false
				}
			}
			return true
		}
		if !rec(0, 0) {
			return
		}
	}
}
