package mc

import "fmt"

// Sequences calls f with every sequence over {0..n-1} of length 0..maxLen, in
// order of increasing length and lexicographically within one length (simplest
// first).  The slice passed to f is reused.  f returning false stops the walk.
func Sequences(n, maxLen int, f func(idx []int) bool) {
	for l := 0; l <= maxLen; l++ {
		idx := make([]int, l)
		for {
			if !f(idx) {
				return
			}
			i := l - 1
			for i >= 0 {
				idx[i]++
				if idx[i] < n {
					break
				}
				idx[i] = 0
				i--
			}
			if i < 0 {
				break
			}
		}
	}
}

// Permutations calls f with every permutation of 0..n-1 (slice reused).
func Permutations(n int, f func(p []int) bool) {
	p := make([]int, n)
	for i := range p {
		p[i] = i
	}
	var rec func(k int) bool
	rec = func(k int) bool {
		if k == n {
			return f(p)
		}
		for i := k; i < n; i++ {
			p[k], p[i] = p[i], p[k]
			if !rec(k + 1) {
				return false
			}
			p[k], p[i] = p[i], p[k]
		}
		return true
	}
	rec(0)
}

// Subsets calls f with every subset of 0..n-1 of size lo..hi (ascending size).
func Subsets(n, lo, hi int, f func(s []int) bool) {
	for k := lo; k <= hi && k <= n; k++ {
		s := make([]int, k)
		var rec func(start, d int) bool
		rec = func(start, d int) bool {
			if d == k {
				return f(s)
			}
			for i := start; i < n; i++ {
				s[d] = i
				if !rec(i+1, d+1) {
					return false
				}
			}
			return true
		}
		if !rec(0, 0) {
			return
		}
	}
}

// Model is one instance of the real system under test together with its reference model.
// Apply performs event ev on both and returns "" or the oracle failure; Key is the
// canonical state (implementation dump + reference state) used to merge histories.
type Model interface {
	Apply(ev int) string
	Key() string
}

// BFSOpts configures an explicit-state breadth-first search over event histories.
type BFSOpts struct {
	Name     string
	NEvents  int
	MaxDepth int
	EvName   func(ev int) string
	// Run executes body with a fresh instance; it is the place to open a synctest bubble
	// (virtual time).  body must be called exactly once.
	Run func(body func(m Model))
	// Classify maps an oracle failure to a known-findings key (default: first word).
	Classify  func(fail string, path []int) string
	MaxStates int // cap (0 = none)
	// Prefix: explore only histories that start with these events (sharding by subtree;
	// the prefix transitions themselves are checked by the shard whose CheckPrefix is set)
	Prefix      []int
	CheckPrefix bool
}

type BFSReplay struct {
	Model  string   `json:"model"`
	Path   []int    `json:"path"`
	Events []string `json:"events"`
}

// BFS explores every event history up to MaxDepth, merging histories that reach the same
// state key; a successor is a fresh instance + replay of the shortest path + one event,
// so every transition is an execution of the real implementation.
func BFS(r *Run, o BFSOpts) (states, transitions int) {
	type node struct{ path []int }
	seen := map[string]bool{}
	var initKey string
	prefixFail := ""
	o.Run(func(m Model) {
		for _, e := range o.Prefix {
			if f := m.Apply(e); f != "" && prefixFail == "" {
				prefixFail = f
			}
		}
		initKey = m.Key()
	})
	if prefixFail != "" {
		if o.CheckPrefix {
			var names []string
			for _, e := range o.Prefix {
				names = append(names, o.EvName(e))
			}
			k := prefixFail
			if o.Classify != nil {
				k = o.Classify(prefixFail, o.Prefix)
			} else if i := indexSpace(prefixFail); i > 0 {
				k = prefixFail[:i]
			}
			r.Violation(k, fmt.Sprintf("%s history %v: %s", o.Name, names, prefixFail), BFSReplay{o.Name, o.Prefix, names})
		}
		return 0, 0
	}
	seen[initKey] = true
	frontier := []node{{append([]int{}, o.Prefix...)}}
	for depth := len(o.Prefix); depth < o.MaxDepth && len(frontier) > 0; depth++ {
		var next []node
		for fi, n := range frontier {
			if r.OutOfTime() {
				r.Cap(fmt.Sprintf("%s: time budget reached at depth %d (%d of %d frontier states expanded; all shorter histories fully covered)", o.Name, depth+1, fi, len(frontier)))
				r.Add("states", int64(len(seen)))
				return len(seen), transitions
			}
			for ev := 0; ev < o.NEvents; ev++ {
				var fail, key string
				o.Run(func(m Model) {
					for _, e := range n.path {
						m.Apply(e)
					}
					fail = m.Apply(ev)
					key = m.Key()
				})
				transitions++
				r.Add("transitions", 1)
				path := append(append([]int{}, n.path...), ev)
				if fail != "" {
					k := fail
					if o.Classify != nil {
						k = o.Classify(fail, path)
					} else if i := indexSpace(fail); i > 0 {
						k = fail[:i]
					}
					var names []string
					for _, e := range path {
						names = append(names, o.EvName(e))
					}
					r.Violation(k, fmt.Sprintf("%s history %v: %s", o.Name, names, fail), BFSReplay{o.Name, path, names})
					continue // do not explore beyond a violating transition
				}
				if !seen[key] {
					seen[key] = true
					next = append(next, node{path})
					if o.MaxStates > 0 && len(seen) >= o.MaxStates {
						r.Cap(fmt.Sprintf("%s: state cap %d at depth %d", o.Name, o.MaxStates, depth+1))
						r.Add("states", int64(len(seen)))
						return len(seen), transitions
					}
				}
			}
		}
		frontier = next
	}
	r.Add("states", int64(len(seen)))
	return len(seen), transitions
}

func indexSpace(s string) int {
	for i := 0; i < len(s); i++ {
		if s[i] == ' ' {
			return i
		}
	}
	return -1
}
