// Package mc is the explorer library shared by all property harnesses:
// evidence accounting, violation / known-finding bookkeeping, replay files and
// process sharding.  The exploration engines themselves live in seq.go (history
// BFS / product enumeration) and sched.go (schedule DFS on top of verifrt).
package mc

import (
	"crypto/sha1"
	"encoding/hex"
	"encoding/json"
	"errors"
	"fmt"
	"os"
	"os/exec"
	"path/filepath"
	"sort"
	"strconv"
	"strings"
	"sync"
	"testing"
	"time"
)

const VerifDir = "/verif"

// Finding is one violation of a property: Key identifies the failing input /
// call site / history class canonically (it is what known_findings.json lists),
// What is the human readable explanation, Replay everything needed to re-run it.
type Finding struct {
	Key    string `json:"key"`
	What   string `json:"what"`
	Replay any    `json:"replay,omitempty"`
	Count  int    `json:"count"`
}

type knownEntry struct {
	Property string `json:"property"`
	Key      string `json:"key"`
	What     string `json:"what"`
	Status   string `json:"status"` // "known" | "fixed"
	Commit   string `json:"commit,omitempty"`
}

// Run accumulates what one check run covered.
type Run struct {
	ID    string
	Level string
	Tier  string
	Seed  int
	start time.Time

	mu          sync.Mutex
	Counters    map[string]int64
	Outcomes    map[string]int64 // distinct observed outcomes (vacuity indicator)
	Nontrivial  map[string]struct{}
	samples     []any
	maxSamples  int
	findings    map[string]*Finding
	Rule        string
	Exhaustive  bool
	Caps        []string
	Assumptions []string
	Extra       map[string]any

	worker    bool
	shard     int
	nshards   int
	workerOut string
	deadline  time.Time
	infra     []string
}

// New creates the run for property id.  Environment: VERIF_TIER (quick|thorough),
// VERIF_SEED, VERIF_WORKER=k/n + VERIF_WORKER_OUT (set by Parallel for children).
func New(id, level string) *Run {
	r := &Run{ID: id, Level: level, Tier: "quick", start: time.Now(),
		Counters: map[string]int64{}, Outcomes: map[string]int64{}, Nontrivial: map[string]struct{}{},
		findings: map[string]*Finding{}, maxSamples: 5, Exhaustive: true, Extra: map[string]any{}}
	if t := os.Getenv("VERIF_TIER"); t == "thorough" {
		r.Tier = "thorough"
	}
	if s, err := strconv.Atoi(os.Getenv("VERIF_SEED")); err == nil {
		r.Seed = s
	}
	if w := os.Getenv("VERIF_WORKER"); w != "" {
		parts := strings.Split(w, "/")
		r.shard, _ = strconv.Atoi(parts[0])
		r.nshards, _ = strconv.Atoi(parts[1])
		r.worker = true
		r.workerOut = os.Getenv("VERIF_WORKER_OUT")
	} else {
		r.nshards = 1
	}
	if d := os.Getenv("VERIF_DEADLINE_S"); d != "" {
		if s, err := strconv.Atoi(d); err == nil && s > 0 {
			r.deadline = r.start.Add(time.Duration(s) * time.Second)
		}
	} else if r.Tier == "thorough" {
		// the thorough tier explores as deep as it gets within half an hour per check; when
		// the budget ends the run stops exploring, reports what was covered below the cap
		// (exhaustive:false) and exits 0 (VERIF_DEADLINE_S=<seconds> overrides, 0 = none)
		r.deadline = r.start.Add(30 * time.Minute)
	}
	return r
}

func (r *Run) Thorough() bool { return r.Tier == "thorough" }

// Pick returns q in the quick tier and t in the thorough tier.
func Pick[T any](r *Run, q, t T) T {
	if r.Thorough() {
		return t
	}
	return q
}

// Mine tells a sharded worker whether work item i belongs to it.  Once the time budget of the
// run is used up no further item is taken (the run ends normally with exhaustive:false and
// the cap recorded), so every enumeration that is sharded through Mine honours the budget.
func (r *Run) Mine(i int) bool {
	if r.nshards > 1 && i%r.nshards != r.shard {
		return false
	}
	if r.OutOfTime() {
		r.Cap("time budget: the enumeration stopped before all of its items were taken")
		return false
	}
	return true
}
func (r *Run) IsWorker() bool { return r.worker }
func (r *Run) Shard() (int, int) {
	return r.shard, r.nshards
}

// OutOfTime reports whether the internal deadline passed; callers stop exploring,
// call Cap(...) and finish normally (exit 0, exhaustive:false).
func (r *Run) OutOfTime() bool {
	return !r.deadline.IsZero() && time.Now().After(r.deadline)
}

func (r *Run) Add(name string, n int64) {
	r.mu.Lock()
	r.Counters[name] += n
	r.mu.Unlock()
}

func (r *Run) Outcome(o string) {
	r.mu.Lock()
	r.Outcomes[o]++
	r.mu.Unlock()
}

// NonTrivial records a distinct non-trivial case (by its canonical description).
func (r *Run) NonTrivial(k string) {
	r.mu.Lock()
	if len(k) > 64 {
		h := sha1.Sum([]byte(k))
		k = hex.EncodeToString(h[:10])
	}
	r.Nontrivial[k] = struct{}{}
	r.mu.Unlock()
}

func (r *Run) Sample(s any) {
	r.mu.Lock()
	if len(r.samples) < r.maxSamples {
		r.samples = append(r.samples, s)
	}
	r.mu.Unlock()
}

func (r *Run) WantSample() bool {
	r.mu.Lock()
	defer r.mu.Unlock()
	return len(r.samples) < r.maxSamples
}

func (r *Run) Cap(what string) {
	r.mu.Lock()
	r.Exhaustive = false
	for _, c := range r.Caps {
		if c == what {
			r.mu.Unlock()
			return
		}
	}
	r.Caps = append(r.Caps, what)
	r.mu.Unlock()
}

func (r *Run) Assume(a ...string) { r.Assumptions = append(r.Assumptions, a...) }

// Violation records a violation; the first one per key keeps its replay.
func (r *Run) Violation(key, what string, replay any) {
	r.mu.Lock()
	defer r.mu.Unlock()
	if f, ok := r.findings[key]; ok {
		f.Count++
		return
	}
	r.findings[key] = &Finding{Key: key, What: what, Replay: replay, Count: 1}
}

func (r *Run) NumFindings() int {
	r.mu.Lock()
	defer r.mu.Unlock()
	return len(r.findings)
}

type partial struct {
	Counters    map[string]int64
	Outcomes    map[string]int64
	Nontrivial  []string
	Samples     []any
	Findings    []*Finding
	Exhaustive  bool
	Caps        []string
	Extra       map[string]any
	Rule        string
	Assumptions []string
	Infra       []string
}

// InfraError records that part of this run could not be explored soundly (a replay that
// diverged, ...).  The run goes on; the check ends with exit 3 unless a violation that does
// not depend on the failed part was found (see Parallel / Finish).
func (r *Run) InfraError(what string) {
	r.mu.Lock()
	r.infra = append(r.infra, what)
	r.mu.Unlock()
	r.Cap("infrastructure error: " + what)
}

func (r *Run) merge(p *partial) {
	r.infra = append(r.infra, p.Infra...)
	for k, v := range p.Counters {
		if strings.HasPrefix(k, "max_") {
			if v > r.Counters[k] {
				r.Counters[k] = v
			}
			continue
		}
		r.Counters[k] += v
	}
	for k, v := range p.Outcomes {
		r.Outcomes[k] += v
	}
	for _, k := range p.Nontrivial {
		r.Nontrivial[k] = struct{}{}
	}
	for _, s := range p.Samples {
		if len(r.samples) < r.maxSamples {
			r.samples = append(r.samples, s)
		}
	}
	for _, f := range p.Findings {
		if g, ok := r.findings[f.Key]; ok {
			g.Count += f.Count
		} else {
			r.findings[f.Key] = f
		}
	}
	if !p.Exhaustive {
		r.Exhaustive = false
	}
	for _, c := range p.Caps {
		found := false
		for _, d := range r.Caps {
			if c == d {
				found = true
			}
		}
		if !found {
			r.Caps = append(r.Caps, c)
		}
	}
	for k, v := range p.Extra {
		if _, ok := r.Extra[k]; !ok {
			r.Extra[k] = v
		}
	}
	if r.Rule == "" {
		r.Rule = p.Rule
	}
	if len(r.Assumptions) == 0 {
		r.Assumptions = p.Assumptions
	}
}

// Parallel re-executes the current test binary n times as sharded workers
// (VERIF_WORKER=k/n) and merges their partial results into r.  In a worker it
// returns false immediately so the caller goes on to do its share; in the parent
// it returns true after all workers finished (the caller must then skip the
// exploration body and call Finish).  A worker that dies abnormally becomes a
// violation keyed "crash" whose replay is the last case it announced.
func (r *Run) Parallel(t *testing.T, n int) bool {
	if r.worker {
		return false
	}
	if n <= 1 {
		return false
	}
	if e := os.Getenv("VERIF_PROCS"); e != "" {
		if v, err := strconv.Atoi(e); err == nil && v > 0 {
			n = v
		}
	}
	dir, err := os.MkdirTemp(WorkDir(), "shards-")
	if err != nil {
		t.Fatal(err)
	}
	defer os.RemoveAll(dir)
	var wg sync.WaitGroup
	type res struct {
		k   int
		err error
		log string
	}
	results := make([]res, n)
	for k := 0; k < n; k++ {
		wg.Add(1)
		go func(k int) {
			defer wg.Done()
			out := filepath.Join(dir, fmt.Sprintf("w%d.json", k))
			cmd := exec.Command(os.Args[0], "-test.run", "^"+t.Name()+"$", "-test.timeout", "0")
			cmd.Env = append(os.Environ(), fmt.Sprintf("VERIF_WORKER=%d/%d", k, n), "VERIF_WORKER_OUT="+out,
				"VERIF_ANNOUNCE="+filepath.Join(dir, fmt.Sprintf("w%d.announce", k)))
			if os.Getenv("GOMAXPROCS") == "" {
				// one worker per core: executions are cooperative (one runnable goroutine at a
				// time), more OS threads per worker only add contention
				cmd.Env = append(cmd.Env, "GOMAXPROCS=2")
			}
			b, err := cmd.CombinedOutput()
			results[k] = res{k, err, string(b)}
		}(k)
	}
	wg.Wait()
	infra := 0
	for k := 0; k < n; k++ {
		out := filepath.Join(dir, fmt.Sprintf("w%d.json", k))
		b, err := os.ReadFile(out)
		if err != nil {
			ann, _ := os.ReadFile(filepath.Join(dir, fmt.Sprintf("w%d.announce", k)))
			tail := results[k].log
			if len(tail) > 3000 {
				tail = tail[:1500] + "\n...\n" + tail[len(tail)-1500:]
			}
			var ee *exec.ExitError
			if errors.As(results[k].err, &ee) && ee.ExitCode() == 3 {
				// exit 3 = the harness itself gave up (replay divergence, nondeterministic
				// replay, watchdog): an infrastructure error, never a property violation
				fmt.Fprintf(os.Stderr, "check: INFRASTRUCTURE ERROR in worker %d (announced %q):\n%s\n", k, string(ann), tail)
				infra++
				continue
			}
			r.Violation("crash:"+crashSignature(results[k].log), "worker process died without reporting: "+firstLine(tail),
				map[string]any{"announced": string(ann), "output": tail, "err": fmt.Sprint(results[k].err)})
			continue
		}
		var p partial
		if err := json.Unmarshal(b, &p); err != nil {
			t.Fatalf("bad partial from worker %d: %v", k, err)
		}
		r.merge(&p)
	}
	infra += len(r.infra)
	for _, m := range r.infra {
		fmt.Fprintf(os.Stderr, "check: INFRASTRUCTURE ERROR reported by a worker: %s\n", m)
	}
	if infra > 0 {
		// the run as a whole is not a verdict (exit 3) - unless other workers found
		// violations: each of those was replayed (schedules) or is a self-contained case, and
		// stands whatever went wrong elsewhere; what the failed workers would have covered is
		// reported as a cap
		known := loadKnown(r.ID)
		unknown := 0
		r.mu.Lock()
		for k := range r.findings {
			if _, ok := known[k]; !ok {
				unknown++
			}
		}
		r.mu.Unlock()
		if unknown == 0 {
			os.Exit(3)
		}
		r.Cap(fmt.Sprintf("%d worker(s) ended with an infrastructure error (see stderr); their share was not covered", infra))
	}
	return true
}

func firstLine(s string) string {
	for _, l := range strings.Split(s, "\n") {
		if strings.Contains(l, "panic") || strings.Contains(l, "fatal error") {
			return l
		}
	}
	if i := strings.IndexByte(s, '\n'); i > 0 {
		return s[:i]
	}
	return s
}

func crashSignature(log string) string {
	for _, l := range strings.Split(log, "\n") {
		if strings.HasPrefix(l, "panic:") || strings.HasPrefix(l, "fatal error:") {
			return strings.TrimSpace(l)
		}
	}
	return "unknown"
}

// Announce writes the case a worker is about to run, so a crash can be attributed.
func Announce(s string) {
	if f := os.Getenv("VERIF_ANNOUNCE"); f != "" {
		_ = os.WriteFile(f, []byte(s), 0o644)
	}
}

var workDirOnce sync.Once
var workDir string

// WorkDir is the per-process scratch root (/verif/.work/<pid>), removed by Finish.
func WorkDir() string {
	workDirOnce.Do(func() {
		base := os.Getenv("VERIF_WORK")
		if base == "" {
			base = filepath.Join(VerifDir, ".work")
		}
		workDir = filepath.Join(base, fmt.Sprintf("p%d", os.Getpid()))
		_ = os.MkdirAll(workDir, 0o755)
	})
	return workDir
}

func loadKnown(id string) (known map[string]knownEntry) {
	known = map[string]knownEntry{}
	b, err := os.ReadFile(filepath.Join(VerifDir, "known_findings.json"))
	if err != nil {
		return
	}
	var file struct {
		Findings []knownEntry `json:"findings"`
	}
	if json.Unmarshal(b, &file) != nil {
		return
	}
	for _, e := range file.Findings {
		if e.Property == id && e.Status == "known" {
			known[e.Key] = e
		}
	}
	return
}

// Finish writes evidence (parent) or the partial result (worker), prints the
// KNOWN-FINDING / VIOLATION lines and exits 1 if an unlisted violation exists.
func (r *Run) Finish(t *testing.T) {
	defer os.RemoveAll(WorkDir())
	if r.worker {
		p := partial{Counters: r.Counters, Outcomes: r.Outcomes, Samples: r.samples, Exhaustive: r.Exhaustive,
			Caps: r.Caps, Extra: r.Extra, Rule: r.Rule, Assumptions: r.Assumptions, Infra: r.infra}
		for k := range r.Nontrivial {
			p.Nontrivial = append(p.Nontrivial, k)
		}
		for _, f := range r.findings {
			p.Findings = append(p.Findings, f)
		}
		b, _ := json.Marshal(&p)
		if err := os.WriteFile(r.workerOut, b, 0o644); err != nil {
			t.Fatal(err)
		}
		return
	}
	known := loadKnown(r.ID)
	keys := make([]string, 0, len(r.findings))
	for k := range r.findings {
		keys = append(keys, k)
	}
	sort.Strings(keys)
	nviol := 0
	var lines []string
	for _, k := range keys {
		f := r.findings[k]
		if _, ok := known[k]; ok {
			lines = append(lines, fmt.Sprintf("KNOWN-FINDING: property=%s %s (%s; %d occurrence(s))", r.ID, k, oneLine(f.What), f.Count))
			continue
		}
		nviol++
		h := sha1.Sum([]byte(k))
		path := filepath.Join(VerifDir, "replays", fmt.Sprintf("%s-%s.json", r.ID, hex.EncodeToString(h[:6])))
		_ = os.MkdirAll(filepath.Dir(path), 0o755)
		b, _ := json.MarshalIndent(map[string]any{"property": r.ID, "key": k, "what": f.What, "occurrences": f.Count, "replay": f.Replay}, "", " ")
		_ = os.WriteFile(path, b, 0o644)
		fmt.Printf("# %s: %s\n", k, oneLine(f.What))
		lines = append(lines, fmt.Sprintf("VIOLATION property=%s replay=%s", r.ID, path))
	}
	r.writeEvidence(nviol, keys, known)
	for _, l := range lines {
		fmt.Println(l)
	}
	fmt.Printf("%s tier=%s %s exhaustive=%v wall=%.1fs\n", r.ID, r.Tier, r.counterLine(), r.Exhaustive, time.Since(r.start).Seconds())
	if nviol > 0 {
		os.Stdout.Sync()
		os.Exit(1)
	}
	if len(r.infra) > 0 {
		os.Stdout.Sync()
		os.Exit(3)
	}
}

func oneLine(s string) string {
	s = strings.ReplaceAll(s, "\n", " ")
	if len(s) > 300 {
		s = s[:300] + "…"
	}
	return s
}

func (r *Run) counterLine() string {
	ks := make([]string, 0, len(r.Counters))
	for k := range r.Counters {
		ks = append(ks, k)
	}
	sort.Strings(ks)
	var sb strings.Builder
	for _, k := range ks {
		fmt.Fprintf(&sb, "%s=%d ", k, r.Counters[k])
	}
	fmt.Fprintf(&sb, "outcomes=%d nontrivial=%d", len(r.Outcomes), len(r.Nontrivial))
	return sb.String()
}

func (r *Run) writeEvidence(nviol int, keys []string, known map[string]knownEntry) {
	cov := map[string]any{}
	for k, v := range r.Counters {
		cov[k] = v
	}
	if _, ok := cov["evaluations"]; !ok {
		var ev int64
		for _, k := range []string{"executions", "transitions", "cases"} {
			ev += r.Counters[k]
		}
		cov["evaluations"] = ev
	}
	cov["distinct_nontrivial"] = len(r.Nontrivial)
	cov["distinct_outcomes"] = len(r.Outcomes)
	if len(r.Outcomes) <= 40 {
		cov["outcomes"] = r.Outcomes
	}
	cov["rule"] = r.Rule
	cov["samples"] = r.samples
	cov["exhaustive"] = r.Exhaustive
	if len(r.Caps) > 0 {
		cov["caps_hit"] = r.Caps
	}
	for k, v := range r.Extra {
		cov[k] = v
	}
	var kf []string
	for _, k := range keys {
		if _, ok := known[k]; ok {
			kf = append(kf, k)
		}
	}
	if len(kf) > 0 {
		cov["known_findings_reproduced"] = kf
	}
	ev := map[string]any{
		"property_id": r.ID, "tier": r.Tier, "seed": r.Seed, "level": r.Level,
		"coverage": cov, "assumptions": r.Assumptions, "wall_s": time.Since(r.start).Seconds(),
		"violations": nviol,
	}
	if r.Assumptions == nil {
		ev["assumptions"] = []string{}
	}
	b, _ := json.MarshalIndent(ev, "", " ")
	_ = os.MkdirAll(filepath.Join(VerifDir, "evidence"), 0o755)
	_ = os.WriteFile(filepath.Join(VerifDir, "evidence", r.ID+".json"), b, 0o644)
}

// ReplayFile returns the path given with VERIF_REPLAY (replay mode) or "".
func ReplayFile() string { return os.Getenv("VERIF_REPLAY") }

// LoadReplay decodes the "replay" member of a replay file into v.
func LoadReplay(path string, v any) error {
	b, err := os.ReadFile(path)
	if err != nil {
		return err
	}
	var w struct {
		Replay json.RawMessage `json:"replay"`
	}
	if err := json.Unmarshal(b, &w); err != nil {
		return err
	}
	return json.Unmarshal(w.Replay, v)
}
