package mc

// schedx: stateless, deviation-bounded exploration of goroutine schedules of the real
// code.  One execution = one testing/synctest bubble; every operation of the shimmed
// sync / sync/atomic packages parks its goroutine at a scheduling point
// (lunar/toolkit-core/verifrt); this controller releases exactly one goroutine at a time
// or lets virtual time advance ("T").  See DESIGN.md §2.3.

import (
	"fmt"
	"os"
	"runtime"
	"sort"
	"strings"
	"sync/atomic"
	"testing"
	"testing/synctest"
	"time"

	rt "lunar/toolkit-core/verifrt"
)

type SchedOpts struct {
	Name       string
	MaxPreempt int           // bound on preemptions (switching away from a still-enabled goroutine)
	MaxEarlyT  int           // bound on time steps taken while some goroutine is enabled
	Quantum    time.Duration // virtual time advanced by one T step (at most)
	MaxT       int           // horizon: max T steps per execution
	MaxSteps   int           // horizon: max scheduling decisions per execution
	// Body builds the scenario inside the bubble and spawns harness goroutines with x.Go.
	Body func(x *Exec)
	// Check is the oracle, called inside the bubble after the harness goroutines finished
	// (or the horizon was reached); returns "" or (key, explanation).
	Check func(x *Exec) (key, what string)
	// Teardown releases whatever keeps repo goroutines alive (cancel contexts...).
	Teardown func(x *Exec)
	// QuietObjs: operations on these objects are not scheduling decisions (read-mostly
	// configuration locks); the goroutine is released immediately.
	// Focus: only sync operations issued by functions of these packages (qualified-name
	// prefixes) are scheduling decisions; others proceed unless they would block.
	Focus []string
	// MaxRun: after this many consecutive default decisions for the same goroutine while
	// others are enabled, the default choice moves to the next enabled goroutine (a
	// deterministic fairness rule for spin / polling loops; 0 = 300).
	MaxRun int
	// OnQuiescent is called by the controller at every quiescent point (all goroutines
	// parked or durably blocked), before the next decision: invariant oracles go here.
	OnQuiescent   func(x *Exec)
	MaxExecutions int64 // cap (0 = none); hitting it sets exhaustive=false
	// IdleAfterDone: after all harness goroutines returned, keep running the remaining
	// goroutines / T steps for this many extra T steps before checking (lets background
	// work that the oracle wants to observe complete).
	IdleAfterDone int
	// BranchFrom / BranchUntil (virtual time since the start of the execution; used when
	// BranchUntil > 0): only decisions taken at an instant inside [BranchFrom, BranchUntil]
	// are branched on, every other decision takes the default choice.  Makes the exploration
	// of a long execution exhaustive (within the deviation bounds) around one instant -
	// e.g. a TTL expiry - instead of spending a capped budget on its first decisions.
	BranchFrom, BranchUntil time.Duration
}

type optionKind int

const (
	optGoroutine optionKind = iota
	optTime
)

type option struct {
	kind optionKind
	sid  int
	req  *rt.ParkReq
}

type pointInfo struct {
	nOptions       int
	chosen         int
	runningEnabled bool // option 0 is the goroutine that ran last and is still enabled
	anyEnabled     bool
	hasT           bool
	preemptBefore  int
	earlyTBefore   int
	at             time.Duration // virtual time of the decision
	labels         []string      // option labels (only recorded when tracing)
}

// Exec is one execution.
type Exec struct {
	T        *testing.T
	opts     *SchedOpts
	s        *rt.Sched
	start    time.Time
	prefix   []int
	choices  []int
	points   []pointInfo
	Log      []string
	trace    bool
	Trace    []string
	names    map[int64]int // goroutine id -> stable id
	sidName  map[int]string
	nextRepo int
	nHarness int
	live     atomic.Int32
	parked   []*rt.ParkReq
	objIDs   map[uintptr]int
	Horizon  bool
	Stuck    bool
	Diverged string
	preempts int
	earlyTs  int
	tSteps   int
	Vals     map[string]any // scenario scratch (set by Body, read by Check)
	logMu    chan struct{}
}

// EarlyTs is the number of time steps this execution took while some goroutine was enabled
// (0 = virtual time only advanced when every goroutine was blocked).
func (x *Exec) EarlyTs() int { return x.earlyTs }

// Now is the virtual time since the start of the execution.
func (x *Exec) Now() time.Duration { return time.Since(x.start) }

// Logf appends to the observation log (content must be a deterministic function of the schedule).
func (x *Exec) Logf(f string, a ...any) {
	<-x.logMu
	x.Log = append(x.Log, fmt.Sprintf("%8s ", x.Now().String())+fmt.Sprintf(f, a...))
	x.logMu <- struct{}{}
}

// Go spawns a named harness goroutine; it starts at a scheduling point so the controller
// decides when it begins.
func (x *Exec) Go(name string, f func()) {
	sid := x.nHarness
	x.nHarness++
	x.sidName[sid] = name
	x.live.Add(1)
	ready := make(chan int64)
	go func() {
		ready <- rt.GoID()
		defer x.live.Add(-1)
		rt.PointL(rt.OpStart, 0, name, nil)
		f()
	}()
	gid := <-ready
	x.names[gid] = sid
}

// Fail records an oracle failure for this execution (the first one wins).
func (x *Exec) Fail(key, what string) {
	if _, ok := x.Vals["__viol_key"]; !ok {
		x.Vals["__viol_key"] = key
		x.Vals["__viol_what"] = what
	}
}

// ParkView describes one goroutine parked at a scheduling point.
type ParkView struct {
	Sid     int
	Name    string
	Op      string
	Obj     uintptr
	Enabled bool
}

// Parked lists the goroutines currently parked at scheduling points.
func (x *Exec) Parked() []ParkView {
	out := make([]ParkView, 0, len(x.parked))
	for _, r := range x.parked {
		sid := x.sidOf(r)
		out = append(out, ParkView{sid, x.sidName[sid], r.Op, r.Obj, r.Enabled == nil || r.Enabled()})
	}
	return out
}

// Yield is an explicit harness scheduling point.
func (x *Exec) Yield(label string) { rt.PointL(rt.OpHarness, 0, label, nil) }

func (x *Exec) sidOf(r *rt.ParkReq) int {
	if sid, ok := x.names[r.GID]; ok {
		return sid
	}
	sid := 100 + x.nextRepo
	x.nextRepo++
	x.names[r.GID] = sid
	x.sidName[sid] = fmt.Sprintf("bg%d", sid-100)
	return sid
}

func (x *Exec) objID(p uintptr) int {
	if p == 0 {
		return 0
	}
	if id, ok := x.objIDs[p]; ok {
		return id
	}
	id := len(x.objIDs) + 1
	x.objIDs[p] = id
	return id
}

func (x *Exec) label(r *rt.ParkReq) string {
	l := r.Op
	if r.Label != "" {
		l += ":" + r.Label
	}
	return fmt.Sprintf("%s@%s#%d", x.sidName[x.sidOf(r)], l, x.objID(r.Obj))
}

func (x *Exec) drain() {
	var fresh []*rt.ParkReq
	for {
		select {
		case r := <-x.s.Reqs:
			fresh = append(fresh, r)
		default:
			// assign stable ids to newly seen goroutines in goroutine-id (= creation) order
			sort.Slice(fresh, func(i, j int) bool { return fresh[i].GID < fresh[j].GID })
			for _, r := range fresh {
				x.sidOf(r)
				x.objID(r.Obj)
			}
			x.parked = append(x.parked, fresh...)
			return
		}
	}
}

var progress atomic.Int64
var watchdogStarted atomic.Bool

func startWatchdog() {
	if !watchdogStarted.CompareAndSwap(false, true) {
		return
	}
	go func() {
		last := int64(-1)
		stuck := 0
		for {
			time.Sleep(5 * time.Second)
			p := progress.Load()
			if p == last {
				stuck++
			} else {
				stuck = 0
			}
			last = p
			if stuck >= 12 {
				buf := make([]byte, 1<<20)
				n := runtime.Stack(buf, true)
				fmt.Fprintf(os.Stderr, "schedx WATCHDOG: no scheduling progress for 60s (a goroutine is blocked natively or spinning)\n%s\n", buf[:n])
				os.Exit(3)
			}
		}
	}()
}

// Bubble runs f in a synctest bubble from a helper goroutine: when the inner test is marked
// failed (under -race the testing package does that as soon as the detector has reported
// anything) synctest.Test calls FailNow, which must not unwind the exploration loop.
func Bubble(t *testing.T, f func(*testing.T)) {
	done := make(chan struct{})
	go func() {
		defer close(done)
		synctest.Test(t, f)
	}()
	<-done
}

// runOne runs one execution following prefix, then default choices.
func runOne(t *testing.T, o *SchedOpts, prefix []int, trace bool) *Exec {
	x := &Exec{T: t, opts: o, prefix: prefix, trace: trace, names: map[int64]int{}, sidName: map[int]string{},
		objIDs: map[uintptr]int{}, Vals: map[string]any{}, logMu: make(chan struct{}, 1)}
	x.logMu <- struct{}{}
	if o.Quantum == 0 {
		o.Quantum = 100 * time.Millisecond
	}
	if o.MaxSteps == 0 {
		o.MaxSteps = 5000
	}
	startWatchdog()
	Bubble(t, func(t *testing.T) {
		x.start = time.Now()
		x.s = rt.Activate()
		if len(o.Focus) > 0 {
			x.s.SetFocus(o.Focus)
		}
		defer rt.Deactivate()
		// the scenario is built with synchronisation events visible to the race detector
		// (goroutine creation orders the set-up before the harness goroutines, as in the real
		// program); only the controller's scheduling loop runs with them switched off
		o.Body(x)
		rt.RaceDisable()
		defer rt.RaceEnable()
		x.control()
		if o.Check != nil && x.Diverged == "" {
			// the oracle runs with the scheduler switched off (its own lock operations must not park)
			rt.Deactivate()
			k, w := o.Check(x)
			if k != "" {
				x.Fail(k, w)
			}
			rt.Reactivate(x.s)
		}
		x.kill()
	})
	return x
}

func (x *Exec) control() {
	o := x.opts
	var running *rt.ParkReq // not used; identity tracked by sid
	_ = running
	lastSid := -1
	idleAfterDone := 0
	spin := 0
	var spinAt time.Duration = -1
	runLen := 0
	maxRun := o.MaxRun
	if maxRun == 0 {
		maxRun = 300
	}
	for step := 0; ; step++ {
		progress.Add(1)
		synctest.Wait()
		x.drain()
		harnessDone := x.live.Load() == 0
		if o.OnQuiescent != nil {
			rt.Deactivate()
			o.OnQuiescent(x)
			rt.Reactivate(x.s)
		}
		if harnessDone && idleAfterDone >= o.IdleAfterDone {
			return
		}
		if step >= o.MaxSteps {
			x.Horizon = true
			return
		}
		// enabled set in canonical order
		var en []*rt.ParkReq
		for _, r := range x.parked {
			if r.Enabled == nil || r.Enabled() {
				en = append(en, r)
			}
		}
		// A lone goroutine that keeps hitting scheduling points at one virtual instant is polling
		// the clock (e.g. `for now <= deadline { <-time.After(0) }`): in virtual time that never
		// ends, in real time it ends within a clock tick.  Deterministic rule: after 150 such
		// decisions virtual time is advanced by 1 ms (not a scheduling decision, no budget).
		if len(en) == 1 && x.sidOf(en[0]) == lastSid && x.Now() == spinAt {
			spin++
			if spin >= 150 {
				if x.trace {
					x.Trace = append(x.Trace, fmt.Sprintf("    %9s clock-polling goroutine %s: virtual time +1ms", x.Now(), x.sidName[lastSid]))
				}
				time.Sleep(time.Millisecond)
				spin = 0
			}
		} else {
			spin = 0
		}
		spinAt = x.Now()
		keepRunning, demote := lastSid, -1
		if runLen >= maxRun {
			// fairness: the long-running goroutine goes to the end of the canonical order once
			keepRunning, demote = -1, lastSid
			runLen = 0
		}
		sort.SliceStable(en, func(i, j int) bool {
			si, sj := x.sidOf(en[i]), x.sidOf(en[j])
			if (si == keepRunning) != (sj == keepRunning) {
				return si == keepRunning
			}
			if (si == demote) != (sj == demote) {
				return sj == demote
			}
			return si < sj
		})
		var opts []option
		for _, r := range en {
			opts = append(opts, option{optGoroutine, x.sidOf(r), r})
		}
		hasT := x.tSteps < o.MaxT
		if hasT {
			opts = append(opts, option{kind: optTime})
		}
		if len(opts) == 0 {
			if len(en) == 0 && !harnessDone {
				x.Horizon = true // time horizon reached with harness goroutines still waiting
			}
			return
		}
		pi := pointInfo{nOptions: len(opts), anyEnabled: len(en) > 0, hasT: hasT,
			runningEnabled: len(en) > 0 && x.sidOf(en[0]) == keepRunning && keepRunning >= 0, preemptBefore: x.preempts, earlyTBefore: x.earlyTs, at: x.Now()}
		choice := 0
		idx := len(x.choices)
		if idx < len(x.prefix) {
			choice = x.prefix[idx]
			if choice >= len(opts) {
				x.Diverged = fmt.Sprintf("REPLAY-DIVERGENCE at decision %d: choice %d but only %d options", idx, choice, len(opts))
				return
			}
		}
		pi.chosen = choice
		if x.trace {
			var ls []string
			for _, op := range opts {
				if op.kind == optTime {
					ls = append(ls, "T")
				} else {
					ls = append(ls, x.label(op.req))
				}
			}
			pi.labels = ls
			x.Trace = append(x.Trace, fmt.Sprintf("%3d %9s pick %d of [%s]", idx, x.Now(), choice, strings.Join(ls, " | ")))
		}
		x.points = append(x.points, pi)
		x.choices = append(x.choices, choice)
		op := opts[choice]
		if op.kind == optTime {
			if len(en) > 0 {
				x.earlyTs++
			}
			x.tSteps++
			if harnessDone {
				idleAfterDone++
			}
			x.timeStep()
			continue
		}
		if pi.runningEnabled && choice != 0 {
			x.preempts++
		}
		// release
		for i, r := range x.parked {
			if r == op.req {
				x.parked = append(x.parked[:i], x.parked[i+1:]...)
				break
			}
		}
		if op.sid == lastSid {
			runLen++
		} else {
			runLen = 0
		}
		lastSid = op.sid
		x.s.Release(op.req)
	}
}

// timeStep lets virtual time advance by at most one quantum, or until a goroutine parks.
func (x *Exec) timeStep() {
	tm := time.NewTimer(x.opts.Quantum)
	select {
	case r := <-x.s.Reqs:
		tm.Stop()
		x.sidOf(r)
		x.parked = append(x.parked, r)
	case <-tm.C:
	}
}

func (x *Exec) kill() {
	if x.opts.Teardown != nil {
		rt.Deactivate()
		x.opts.Teardown(x)
		rt.Reactivate(x.s)
	}
	x.s.Kill()
	q := 100 * time.Millisecond
	idle := 0
	for round := 0; round < 200 && idle < 6; round++ {
		progress.Add(1)
		synctest.Wait()
		x.drain()
		if len(x.parked) > 0 {
			for _, r := range x.parked {
				x.s.Release(r)
			}
			x.parked = nil
			idle = 0
			continue
		}
		idle++
		time.Sleep(q)
		q *= 20
		if q > 100*time.Hour {
			q = 100 * time.Hour
		}
	}
}

// ---- exploration ---------------------------------------------------------------------

type SchedResult struct {
	Executions int64
	MaxPoints  int
	Completed  bool
}

type schedReplay struct {
	Scenario string   `json:"scenario"`
	Choices  []int    `json:"choices"`
	Bounds   string   `json:"bounds"`
	Trace    []string `json:"trace"`
	Log      []string `json:"log"`
}

// Explore enumerates every schedule of the scenario within the deviation bounds.
// classify maps an oracle failure to a known-findings key (default: the key returned by Check).
func Explore(t *testing.T, r *Run, o *SchedOpts) {
	if o.Quantum == 0 {
		o.Quantum = 100 * time.Millisecond
	}
	if o.MaxSteps == 0 {
		o.MaxSteps = 5000
	}
	var execs int64
	maxPts := 0
	outcomes := map[string]bool{}
	capped := false

	handle := func(x *Exec, count bool) {
		if count {
			execs++
			r.Add("executions", 1)
			r.Add("transitions", int64(len(x.choices)))
		}
		if len(x.points) > maxPts {
			maxPts = len(x.points)
		}
		if x.Diverged != "" {
			// the same prefix offered a different set of choices than when it was recorded:
			// the execution is not a function of the schedule (state kept between
			// executions, nondeterminism outside the scheduler).  The rest of this scenario
			// cannot be explored soundly: it is abandoned and the run reports an
			// infrastructure error.
			fmt.Fprintf(os.Stderr, "%s scenario %s prefix %v\n", x.Diverged, o.Name, x.prefix)
			r.InfraError(fmt.Sprintf("%s (scenario %s)", x.Diverged, o.Name))
			capped = true
			return
		}
		if x.Horizon {
			r.Add("horizon_hits", 1)
		}
		sig := strings.Join(stripTimes(x.Log), ";")
		if !outcomes[sig] {
			outcomes[sig] = true
			r.Outcome(o.Name + ":" + short(sig))
			r.NonTrivial(o.Name + ":" + sig)
			if r.WantSample() && len(x.choices) > 0 {
				r.Sample(map[string]any{"scenario": o.Name, "choices": fmt.Sprint(x.choices), "log": x.Log})
			}
		}
		if k, ok := x.Vals["__viol_key"].(string); ok && k != "" {
			what := x.Vals["__viol_what"].(string)
			// determinism: the same choice list must give the same observations, twice more.
			// The code under test may itself be nondeterministic under one schedule (Go's map
			// iteration order decides e.g. which flow is attached first): then the schedule
			// is replayed up to 12 times and the violation is reported only if the same
			// oracle key is reproduced twice more; a violation that never reproduces is an
			// infrastructure error (exit 3), not a finding.
			full := append([]int{}, x.choices...)
			y1 := runOne(t, o, full, true)
			y2 := runOne(t, o, full, false)
			if strings.Join(y1.Log, "\n") != strings.Join(x.Log, "\n") || strings.Join(y2.Log, "\n") != strings.Join(x.Log, "\n") ||
				y1.Vals["__viol_key"] != k || y2.Vals["__viol_key"] != k {
				repro := 0
				var yk *Exec
				for i := 0; i < 12 && repro < 2; i++ {
					y := runOne(t, o, full, true)
					if y.Diverged == "" && y.Vals["__viol_key"] == k {
						repro++
						yk = y
					}
				}
				if repro < 2 {
					fmt.Fprintf(os.Stderr, "NONDETERMINISTIC-REPLAY scenario %s choices %v:\n first: %v\n again: %v\n again: %v\n", o.Name, full, x.Log, y1.Log, y2.Log)
					os.Exit(3)
				}
				y1 = yk
				what += " [the outcome of this schedule also depends on Go map iteration order inside the code under test; reproduced in repeated replays]"
			}
			r.Violation(k, fmt.Sprintf("scenario %s schedule %v: %s", o.Name, full, what),
				schedReplay{o.Name, full, fmt.Sprintf("preempt<=%d earlyT<=%d", o.MaxPreempt, o.MaxEarlyT), y1.Trace, x.Log})
		}
	}

	_, nsh := r.Shard()
	budget := func() bool {
		if capped {
			return false
		}
		if o.MaxExecutions > 0 && execs >= (o.MaxExecutions+int64(nsh)-1)/int64(nsh) {
			capped = true
			r.Cap(fmt.Sprintf("scenario %s: execution cap %d", o.Name, o.MaxExecutions))
			return false
		}
		if r.OutOfTime() {
			capped = true
			r.Cap(fmt.Sprintf("scenario %s: time budget", o.Name))
			return false
		}
		return true
	}
	// alternatives of execution x after its prefix, within the deviation bounds
	alternatives := func(x *Exec, from int, f func(np []int)) {
		for i := from; i < len(x.points); i++ {
			p := x.points[i]
			if o.BranchUntil > 0 && (p.at < o.BranchFrom || p.at > o.BranchUntil) {
				continue
			}
			for alt := 1; alt < p.nOptions; alt++ {
				pre, et := p.preemptBefore, p.earlyTBefore
				isT := p.hasT && alt == p.nOptions-1
				if isT {
					if p.anyEnabled {
						et++
					}
				} else if p.runningEnabled {
					pre++
				}
				if pre > o.MaxPreempt || et > o.MaxEarlyT {
					continue
				}
				f(append(append(make([]int, 0, i+1), x.choices[:i]...), alt))
			}
		}
	}
	var explore func(prefix []int)
	explore = func(prefix []int) {
		if !budget() {
			return
		}
		if os.Getenv("VERIF_ANNOUNCE") != "" {
			Announce(fmt.Sprintf("scenario=%s prefix=%v", o.Name, prefix))
		}
		x := runOne(t, o, prefix, false)
		handle(x, true)
		alternatives(x, len(prefix), explore)
	}
	if nsh <= 1 {
		explore(nil)
	} else {
		// every shard runs the root execution (deterministic) and takes every nsh-th of its
		// first-level alternatives; alternatives are generated one at a time (no frontier list)
		// ... and of the alternatives below each first-level execution (second level), which
		// balances the shards much better; every shard re-runs the (few) first-level
		// executions to enumerate their alternatives, only the owner counts them.
		sh, _ := r.Shard()
		x := runOne(t, o, nil, false)
		handle(x, sh == 0)
		k1, k2 := 0, 0
		alternatives(x, 0, func(np1 []int) {
			owner := k1%nsh == sh
			k1++
			if !budget() {
				return
			}
			y := runOne(t, o, np1, false)
			handle(y, owner)
			alternatives(y, len(np1), func(np2 []int) {
				if k2%nsh == sh {
					explore(np2)
				}
				k2++
			})
		})
	}
	r.Add("max_points_"+o.Name, 0)
	r.mu.Lock()
	if int64(maxPts) > r.Counters["max_points_"+o.Name] {
		r.Counters["max_points_"+o.Name] = int64(maxPts)
	}
	r.mu.Unlock()
}

// ReplaySchedule re-runs one recorded schedule and prints its trace and log.
func ReplaySchedule(t *testing.T, o *SchedOpts, choices []int) (key string) {
	x := runOne(t, o, choices, true)
	for _, l := range x.Trace {
		fmt.Println(l)
	}
	fmt.Println("--- observation log")
	for _, l := range x.Log {
		fmt.Println(l)
	}
	if x.Diverged != "" {
		fmt.Println(x.Diverged)
		os.Exit(3)
	}
	k, _ := x.Vals["__viol_key"].(string)
	if k != "" {
		fmt.Printf("--- oracle: %s: %v\n", k, x.Vals["__viol_what"])
	}
	return k
}

// TraceOne runs one schedule and returns its trace of scheduling points (debug aid).
func TraceOne(t *testing.T, o *SchedOpts, choices []int) []string {
	return runOne(t, o, choices, true).Trace
}

func stripTimes(log []string) []string {
	out := make([]string, len(log))
	for i, l := range log {
		out[i] = strings.TrimSpace(l)
	}
	return out
}

func short(s string) string {
	if len(s) > 120 {
		return s[:120] + "…"
	}
	return s
}
