package c13

// Revert family: the endpoint tree after the policies went through the accessor's own paths -
// initial load from a file, then a revert to the diagnosis-free copy the loader saved
// (what the diagnosis fail-safe does), then a revert to the last loaded copy.  Endpoints that
// carry only a diagnosis have nothing left to run in the diagnosis-free configuration, but
// they are still declared: they stay the most specific pattern for what they match.

import (
	"fmt"
	"io"
	"net/http"
	"os"
	"path/filepath"
	"strings"
	"testing"
	"testing/synctest"
	"time"

	"lunar/engine/config"
	"verifharness/mc"
)

type okTransport struct{}

func (okTransport) RoundTrip(rq *http.Request) (*http.Response, error) {
	if rq.Body != nil {
		io.Copy(io.Discard, rq.Body)
		rq.Body.Close()
	}
	return &http.Response{StatusCode: 200, Body: io.NopCloser(strings.NewReader("OK")), Header: http.Header{}, Request: rq}, nil
}

// kind of an endpoint declaration in the file: remedy only, diagnosis only, both
func policiesFile(decls []decl, kinds []int) string {
	var sb strings.Builder
	sb.WriteString("global:\n  remedies: []\n  diagnosis: []\nendpoints:\n")
	for i, d := range decls {
		fmt.Fprintf(&sb, "  - url: %s\n    method: %s\n", d.Pattern, d.Method)
		if kinds[i] != 1 {
			fmt.Fprintf(&sb, "    remedies:\n      - name: r%d\n        enabled: true\n        config:\n          fixed_response:\n            status_code: %d\n", i, 410+i)
		} else {
			sb.WriteString("    remedies: []\n")
		}
		if kinds[i] != 0 {
			fmt.Fprintf(&sb, "    diagnosis:\n      - name: d%d\n        enabled: true\n        config:\n          har_exporter:\n            transaction_max_size_bytes: 1000\n            obfuscate:\n              enabled: false\n        export: file\n", i)
		} else {
			sb.WriteString("    diagnosis: []\n")
		}
	}
	return sb.String()
}

func revertFamily(t *testing.T, r *mc.Run, reqs []request, idx *int) {
	var small []decl
	for _, p := range []string{"h.com/a", "h.com/{p}", "h.com/*", "h.com/a/b", "h.com/a/*"} {
		small = append(small, decl{Method: "GET", Pattern: p})
	}
	mc.Subsets(len(small), 2, 3, func(s []int) bool {
		// every assignment of {remedy only, diagnosis only, both} to the declarations
		kinds := make([]int, len(s))
		for {
			*idx++
			if r.Mine(*idx) {
				decls := make([]decl, len(s))
				for i, k := range s {
					decls[i] = small[k]
					// in the diagnosis-free configuration a diagnosis-only declaration has nothing enabled
					decls[i].Disabled = kinds[i] == 1
				}
				revertCase(t, r, decls, append([]int{}, kinds...), reqs)
			}
			k := len(kinds) - 1
			for k >= 0 {
				kinds[k]++
				if kinds[k] < 3 {
					break
				}
				kinds[k] = 0
				k--
			}
			if k < 0 {
				break
			}
		}
		return true
	})
}

func revertCase(t *testing.T, r *mc.Run, decls []decl, kinds []int, reqs []request) {
	synctest.Test(t, func(t *testing.T) {
		http.DefaultClient.Transport = okTransport{}
		dir, _ := os.MkdirTemp(mc.WorkDir(), "c13-rev-")
		defer os.RemoveAll(dir)
		os.Setenv("LUNAR_PROXY_CONFIG_DIR", dir)
		os.Setenv("LUNAR_PROXY_POLICIES_CONFIG", filepath.Join(dir, "policies.yaml"))
		os.WriteFile(filepath.Join(dir, "policies.yaml"), []byte(policiesFile(decls, kinds)), 0o644)
		br, err := config.BuildInitialFromFile()
		if err != nil {
			r.Outcome("revert: load-rejected")
			return
		}
		acc := br.Accessor
		defer func() {
			config.VerifStopVacuums(acc)
			time.Sleep(2 * time.Minute)
			synctest.Wait()
		}()
		if err := acc.RevertToDiagnosisFree(); err != nil {
			r.Violation("REVERT:diagnosis-free-failed", fmt.Sprintf("declarations=%v kinds=%v: the revert to the diagnosis-free configuration failed: %v", decls, kinds, err), replay{decls, nil, request{}})
			return
		}
		order := make([]int, len(decls))
		for i := range order {
			order[i] = i
		}
		tree := &acc.GetCurrentPoliciesData().EndpointPolicyTree
		for _, rq := range reqs {
			o := lookup(tree, rq)
			o.Diagnoses = nil // none is enabled in this configuration
			r.Add("evaluations", 1)
			r.Add("revert_cases", 1)
			if len(o.Remedies) > 0 {
				r.NonTrivial(fmt.Sprint("revert", decls, kinds, rq))
			}
			before := r.NumFindings()
			check(r, decls, order, rq, o, nil)
			_ = before
		}
	})
}
