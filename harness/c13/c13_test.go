// C13 — endpoint policies apply only to requests matching their declared endpoint.
// Engine: seqx product enumeration: all endpoint declaration sets up to a size x every
// declaration order x all requests, through the real config.BuildEndpointPolicyTree and
// the dispatcher's getRemedies/getDiagnoses, against the independent pattern matcher.
package c13

import (
	"fmt"
	"reflect"
	"sort"
	"strings"
	"testing"

	"lunar/engine/config"
	"lunar/engine/runner"
	sharedConfig "lunar/shared-model/config"
	"verifharness/mc"
	"verifharness/refurl"
)

type decl struct {
	Method  string
	Pattern string
	// Disabled: the endpoint is declared but its remedy and diagnosis are switched off
	Disabled bool `json:",omitempty"`
}

func (d decl) String() string {
	if d.Disabled {
		return d.Method + " " + d.Pattern + " (switched off)"
	}
	return d.Method + " " + d.Pattern
}

// remedy i has its own type so the loader's duplicate-type check never rejects a set
func remedyFor(i int) sharedConfig.Remedy {
	r := sharedConfig.Remedy{Enabled: true, Name: fmt.Sprintf("r%d", i)}
	switch i % 4 {
	case 0:
		r.Config.FixedResponse = &sharedConfig.FixedResponseConfig{StatusCode: 418}
	case 1:
		r.Config.Retry = &sharedConfig.RetryConfig{Attempts: 1}
	case 2:
		r.Config.ConcurrencyBasedThrottling = &sharedConfig.ConcurrencyBasedThrottlingConfig{MaxConcurrentRequests: 1, ResponseStatusCode: 429}
	case 3:
		r.Config.AccountOrchestration = &sharedConfig.AccountOrchestrationConfig{}
	}
	return r
}

type request struct {
	Method string
	URL    string
}

type outcome struct {
	Remedies   []string
	Diagnoses  []string
	Normalized string
	Params     map[string]string
}

func build(decls []decl, order []int) (*config.EndpointPolicyTree, error) {
	eps := make([]sharedConfig.EndpointConfig, 0, len(decls))
	for _, i := range order {
		rem := remedyFor(i)
		rem.Enabled = !decls[i].Disabled
		eps = append(eps, sharedConfig.EndpointConfig{URL: decls[i].Pattern, Method: decls[i].Method,
			Remedies:  []sharedConfig.Remedy{rem},
			Diagnosis: []sharedConfig.Diagnosis{{Enabled: !decls[i].Disabled, Name: fmt.Sprintf("d%d", i)}}})
	}
	// through the loader's own entry point (what every load / reload / revert path calls)
	pd, err := config.BuildPolicyData(&sharedConfig.PoliciesConfig{Endpoints: eps}, false)
	if err != nil {
		return nil, err
	}
	return &pd.EndpointPolicyTree, nil
}

func lookup(tree *config.EndpointPolicyTree, rq request) outcome {
	var o outcome
	for _, sr := range runner.VerifGetRemedies(rq.Method, rq.URL, tree) {
		if !sr.Remedy.Enabled {
			continue // a switched-off remedy is carried by the tree but never run
		}
		o.Remedies = append(o.Remedies, sr.Remedy.Name)
		o.Normalized = sr.NormalizedURL
		o.Params = sr.PathParams
	}
	for _, sd := range runner.VerifGetDiagnoses(rq.Method, rq.URL, tree) {
		if !sd.Diagnosis.Enabled {
			continue
		}
		o.Diagnoses = append(o.Diagnoses, sd.Diagnosis.Name)
		if o.Normalized == "" {
			o.Normalized = sd.NormalizedURL
		}
	}
	sort.Strings(o.Remedies)
	sort.Strings(o.Diagnoses)
	return o
}

type replay struct {
	Decls []decl  `json:"declarations"`
	Order []int   `json:"order"`
	Req   request `json:"request"`
}

func allPatterns(decls []decl) []string {
	var out []string
	for _, d := range decls {
		out = append(out, d.Pattern)
	}
	return out
}

func relation(decls []decl, rq request) string {
	var s []string
	for _, d := range decls {
		mk, _ := refurl.Match(d.Pattern, rq.URL)
		rel := "nomatch"
		if mk == refurl.Yes {
			rel = "match"
		} else if mk == refurl.ZeroTail {
			rel = "zerotail"
		}
		if strings.HasSuffix(d.Pattern, "*") {
			rel += "*"
		}
		if strings.Contains(d.Pattern, "{") {
			rel += "{}"
		}
		if d.Method != rq.Method {
			rel += "!m"
		}
		s = append(s, rel)
	}
	sort.Strings(s)
	return strings.Join(s, ",")
}

func check(r *mc.Run, decls []decl, order []int, rq request, o outcome, first map[request]outcome) {
	fail := func(clause, what string) {
		r.Violation(clause+":"+relation(decls, rq), fmt.Sprintf("declarations=%v order=%v request=%s %s: %s", decls, order, rq.Method, rq.URL, what),
			replay{decls, append([]int{}, order...), rq})
	}
	names := append(append([]string{}, o.Remedies...), o.Diagnoses...)
	for _, n := range names {
		var i int
		fmt.Sscanf(n[1:], "%d", &i)
		d := decls[i]
		mk, params := refurl.Match(d.Pattern, rq.URL)
		if d.Method != rq.Method || mk == refurl.No {
			fail("ONLY-IF", fmt.Sprintf("%s declared for [%s] was applied", n, d))
			continue
		}
		for j, e := range decls {
			if j == i || e.Method != rq.Method {
				continue
			}
			// a more specific declaration that the non-backtracking trie cannot reach because a
			// third declaration has a literal where it has a parameter / wildcard is not held
			// against the selection (segment-by-segment reading of "literal over parameter over wildcard")
			if mk2, _ := refurl.Match(e.Pattern, rq.URL); mk2 != refurl.No && refurl.Specificity(e.Pattern, d.Pattern) < 0 &&
				!refurl.Shadowed(e.Pattern, allPatterns(decls), rq.URL) {
				fail("SPECIFICITY", fmt.Sprintf("%s of [%s] was applied although the more specific [%s] also matches", n, d, e))
			}
		}
		// normalised URL: a declared pattern that matches the request
		declared := false
		for _, e := range decls {
			if e.Pattern == o.Normalized {
				declared = true
			}
		}
		if !declared {
			fail("NORMALIZED-URL", fmt.Sprintf("reported normalised URL %q is not a declared pattern", o.Normalized))
		} else if mk3, _ := refurl.Match(o.Normalized, rq.URL); mk3 == refurl.No {
			fail("NORMALIZED-URL", fmt.Sprintf("reported normalised URL %q does not match the request", o.Normalized))
		}
		want := params
		got := o.Params
		if len(want) == 0 && len(got) == 0 {
			continue
		}
		if !reflect.DeepEqual(want, got) {
			fail("PATH-PARAMS", fmt.Sprintf("path parameters %v, expected %v (pattern %s)", got, want, d.Pattern))
		}
	}
	if first != nil {
		if prev, ok := first[rq]; ok {
			if !reflect.DeepEqual(prev.Remedies, o.Remedies) || !reflect.DeepEqual(prev.Diagnoses, o.Diagnoses) || prev.Normalized != o.Normalized {
				fail("ORDER", fmt.Sprintf("outcome depends on the declaration order: %+v vs %+v", prev, o))
			}
		} else {
			first[rq] = o
		}
	}
}

func TestCheck(t *testing.T) {
	r := mc.New("C13", "exploration")
	// parameter names are positional ({p} first path part, {q} second): the tree rejects
	// two names for the same position
	segs := []string{"a", "b", "{p}"}
	segs2 := []string{"a", "b", "{q}", "*"}
	patterns := []string{"h.com", "h.com/*"}
	for _, s := range segs {
		patterns = append(patterns, "h.com/"+s)
		for _, s2 := range segs2 {
			patterns = append(patterns, "h.com/"+s+"/"+s2)
		}
	}
	patterns = append(patterns, "h.com/a/b/*", "h.com/{p}/b/a", "h.com/a/{q}/b", "h.com/{p}/{q}/{r}")
	// the same positions under a name that differs only in letter case: the tree refuses two
	// names for one position, so sets mixing the spellings are either rejected in every
	// order or must behave like any other set
	patterns = append(patterns, "h.com/{P}", "h.com/{P}/a", "h.com/a/{Q}", "h.com/{P}/{q}")
	// a host written with a capital letter (a different host for the pattern language)
	patterns = append(patterns, "H.com/a", "H.com/{p}")
	var universe []decl
	for _, p := range patterns {
		for _, m := range []string{"GET", "POST"} {
			universe = append(universe, decl{Method: m, Pattern: p})
		}
	}
	var reqs []request
	mc.Sequences(3, 3, func(idx []int) bool {
		u := "h.com"
		for _, i := range idx {
			u += "/" + []string{"a", "b", "c"}[i]
		}
		for _, m := range []string{"GET", "POST"} {
			reqs = append(reqs, request{m, u})
		}
		return true
	})
	for _, m := range []string{"GET", "POST"} {
		reqs = append(reqs, request{m, "H.com/a"}, request{m, "H.com/c"})
		// a percent-encoded slash is part of one segment, not a separator
		reqs = append(reqs, request{m, "h.com/a%2Fb"}, request{m, "h.com/a/b%2Fa"})
	}
	if f := mc.ReplayFile(); f != "" {
		var rp replay
		if err := mc.LoadReplay(f, &rp); err != nil {
			t.Fatal(err)
		}
		tree, err := build(rp.Decls, rp.Order)
		if err != nil {
			t.Fatal(err)
		}
		o := lookup(tree, rp.Req)
		check(r, rp.Decls, rp.Order, rp.Req, o, nil)
		fmt.Printf("replay declarations=%v order=%v request=%v -> %+v; %d finding(s)\n", rp.Decls, rp.Order, rp.Req, o, r.NumFindings())
		if r.NumFindings() > 0 {
			t.Fail()
		}
		return
	}
	maxSet := 3
	r.Rule = fmt.Sprintf("all endpoint declaration sets of size 1..%d over %d (method, pattern) pairs (%d patterns; host h.com, parts {a,b,{p},*}) x every declaration order x %d requests (GET/POST x paths of length 0-3 over {a,b,c}) through BuildPolicyData (the loader's entry point) and the dispatcher's getRemedies/getDiagnoses; plus the tree the accessor serves after a revert to the diagnosis-free copy of a loaded file (sets of 2-3 over 5 GET patterns x every assignment of remedy-only / diagnosis-only / both); plus sets of 2-3 over 14 pairs in which one declaration is switched off (it still is the most specific declared pattern for what it matches); non-trivial = request for which something was selected; distinct = (set, order, request)", maxSet, len(universe), len(patterns), len(reqs))
	r.Assume("every endpoint carries a remedy of a different type (so the loader's duplicate-type check accepts overlapping endpoints) and one diagnosis",
		"completeness (something must be selected) is not asserted: the statement is an only-if; a trailing wildcard may match an empty tail in policy mode")
	if r.Parallel(t, 16) {
		r.Finish(t)
		return
	}
	idx := 0
	mc.Subsets(len(universe), 1, maxSet, func(s []int) bool {
		idx++
		if !r.Mine(idx) {
			return true
		}
		decls := make([]decl, len(s))
		for i, k := range s {
			decls[i] = universe[k]
		}
		first := map[request]outcome{}
		built, refused := 0, 0
		mc.Permutations(len(decls), func(p []int) bool {
			tree, err := build(decls, p)
			if err != nil {
				r.Outcome("build-error")
				refused++
				if built > 0 {
					r.Violation("ORDER:accepted-or-refused", fmt.Sprintf("declarations=%v: refused in order %v (%v) but accepted in another order", decls, p, err), replay{decls, append([]int{}, p...), request{}})
				}
				return true
			}
			built++
			if refused > 0 {
				r.Violation("ORDER:accepted-or-refused", fmt.Sprintf("declarations=%v: accepted in order %v but refused in another order", decls, p), replay{decls, append([]int{}, p...), request{}})
			}
			for _, rq := range reqs {
				o := lookup(tree, rq)
				r.Add("evaluations", 1)
				if len(o.Remedies)+len(o.Diagnoses) > 0 {
					r.NonTrivial(fmt.Sprint(decls, p, rq))
					r.Outcome(fmt.Sprintf("selected=%d", len(o.Remedies)))
				}
				check(r, decls, p, rq, o, first)
			}
			return true
		})
		if idx%7919 == 3 {
			r.Sample(map[string]any{"declarations": fmt.Sprint(decls), "requests": len(reqs)})
		}
		return true
	})
	// one declaration of the set is switched off (declared, nothing enabled): it still is the
	// most specific declared pattern for the URLs it matches
	var small []decl
	for _, p := range []string{"h.com/a", "h.com/{p}", "h.com/*", "h.com/a/b", "h.com/a/{q}", "h.com/a/*", "h.com/{p}/b"} {
		for _, m := range []string{"GET", "POST"} {
			small = append(small, decl{Method: m, Pattern: p})
		}
	}
	mc.Subsets(len(small), 2, 3, func(s []int) bool {
		for off := range s {
			idx++
			if !r.Mine(idx) {
				continue
			}
			decls := make([]decl, len(s))
			for i, k := range s {
				decls[i] = small[k]
				decls[i].Disabled = i == off
			}
			first := map[request]outcome{}
			mc.Permutations(len(decls), func(p []int) bool {
				tree, err := build(decls, p)
				if err != nil {
					r.Outcome("build-error")
					return true
				}
				for _, rq := range reqs {
					o := lookup(tree, rq)
					r.Add("evaluations", 1)
					for _, n := range append(append([]string{}, o.Remedies...), o.Diagnoses...) {
						var i int
						fmt.Sscanf(n[1:], "%d", &i)
						if decls[i].Disabled {
							r.Violation("SWITCHED-OFF-APPLIED", fmt.Sprintf("declarations=%v order=%v request=%s %s: %s of a switched-off declaration was applied", decls, p, rq.Method, rq.URL, n), replay{decls, append([]int{}, p...), rq})
						}
					}
					if len(o.Remedies)+len(o.Diagnoses) > 0 {
						r.NonTrivial(fmt.Sprint(decls, p, rq))
					}
					check(r, decls, p, rq, o, first)
				}
				return true
			})
		}
		return true
	})
	revertFamily(t, r, reqs, &idx)
	r.Finish(t)
}
