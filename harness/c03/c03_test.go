// C03 — a flow runs for a transaction exactly when its own filter accepts it.
// Engine: seqx product enumeration: all flow sets up to a size (pattern x constraint x
// flow type) x all insertion orders x all transactions of a bounded shape, through the real
// streamfilter.FilterTree (+ urltree), against an independent matcher.
package c03

import (
	"fmt"
	"sort"
	"strings"
	"testing"

	lunar_messages "lunar/engine/messages"
	stream_config "lunar/engine/streams/config"
	streamfilter "lunar/engine/streams/filter"
	stream_flow "lunar/engine/streams/flow"
	internaltypes "lunar/engine/streams/internal-types"
	lunar_context "lunar/engine/streams/lunar-context"
	public_types "lunar/engine/streams/public-types"
	stream_types "lunar/engine/streams/types"
	"verifharness/mc"
	"verifharness/refurl"
)

type constraint struct {
	Name   string
	Method []string
	Header string // required value of header x ("" = none)
	Query  string // required value of query q
	Status int
}

var constraints = []constraint{
	{Name: "none"},
	{Name: "GET", Method: []string{"GET"}},
	{Name: "POST", Method: []string{"POST"}},
	{Name: "hdr", Header: "1"},
	{Name: "qry", Query: "1"},
	{Name: "st500", Status: 500},
}

type flowSpec struct {
	Pattern string
	C       int
	System  bool
}

func (f flowSpec) String() string {
	t := "user"
	if f.System {
		t = "system"
	}
	return fmt.Sprintf("%s[%s,%s]", f.Pattern, constraints[f.C].Name, t)
}

type txn struct {
	URL    string
	Method string
	Header string
	Query  string
	Resp   bool
	Status int
	stream public_types.APIStreamI
}

func (x txn) String() string {
	d := "req"
	if x.Resp {
		d = fmt.Sprintf("resp%d", x.Status)
	}
	return fmt.Sprintf("%s %s hdr=%q q=%q %s", x.Method, x.URL, x.Header, x.Query, d)
}

var sharedState = lunar_context.NewMemoryState[[]byte]()

func mkStream(x txn) public_types.APIStreamI {
	hs := map[string]string{}
	if x.Header != "" {
		hs["x"] = x.Header
	}
	q := ""
	if x.Query != "" {
		q = "q=" + x.Query
	}
	if !x.Resp {
		return stream_types.NewRequestAPIStream(lunar_messages.OnRequest{ID: "1", SequenceID: "1", Method: x.Method, Scheme: "https",
			URL: x.URL, Query: q, Headers: hs}, sharedState)
	}
	return stream_types.NewResponseAPIStream(lunar_messages.OnResponse{ID: "1", SequenceID: "1", Method: x.Method, URL: x.URL,
		Status: x.Status, Headers: map[string]string{}}, sharedState)
}

func mkFlow(i int, f flowSpec) internaltypes.FlowI {
	c := constraints[f.C]
	fl := &stream_config.Filter{Name: fmt.Sprintf("f%d", i), URL: f.Pattern, Method: append([]string{}, c.Method...),
		QueryParams: []public_types.KeyValue{}, Headers: []public_types.KeyValue{}, StatusCode: []int{}}
	if c.Header != "" {
		fl.Headers = []public_types.KeyValue{*public_types.NewKeyValue("x", c.Header)}
	}
	if c.Query != "" {
		fl.QueryParams = []public_types.KeyValue{*public_types.NewKeyValue("q", c.Query)}
	}
	if c.Status != 0 {
		fl.StatusCode = []int{c.Status}
	}
	rep := &stream_config.FlowRepresentation{Name: fmt.Sprintf("f%d", i), Filter: fl}
	if f.System {
		rep.Type = internaltypes.SystemFlowStart
	}
	return stream_flow.NewFlow(nil, rep, nil)
}

// accepts: the flow's own filter, evaluated independently of the tree.
// Returns (accepts, certain): certain=false for the zero-tail wildcard case the statement leaves open.
func accepts(f flowSpec, x txn) (bool, bool) {
	mk, _ := refurl.Match(f.Pattern, x.URL)
	if mk == refurl.No {
		return false, true
	}
	c := constraints[f.C]
	if len(c.Method) > 0 && !contains(c.Method, x.Method) {
		return false, true
	}
	if !x.Resp {
		// header / query constraints are carried by the request message only
		if c.Header != "" && !strings.EqualFold(c.Header, x.Header) {
			return false, true
		}
		if c.Query != "" && c.Query != x.Query {
			return false, true
		}
	} else if c.Status != 0 && c.Status != x.Status {
		return false, true
	}
	return true, mk == refurl.Yes
}

func contains(l []string, s string) bool {
	for _, x := range l {
		if x == s {
			return true
		}
	}
	return false
}

func selected(tree internaltypes.FilterTreeI, x txn) []string {
	res, found := tree.GetFlow(x.stream)
	if !found {
		return nil
	}
	var names []string
	if fl, ok := res.GetUserFlow(); ok {
		for _, f := range fl {
			names = append(names, f.GetName())
		}
	}
	if fl, ok := res.GetSystemFlowStart(); ok {
		for _, f := range fl {
			names = append(names, f.GetName())
		}
	}
	if fl, ok := res.GetSystemFlowEnd(); ok {
		for _, f := range fl {
			names = append(names, f.GetName())
		}
	}
	sort.Strings(names)
	return names
}

type replay struct {
	Flows []flowSpec `json:"flows"`
	Order []int      `json:"order"`
	Txn   txn        `json:"txn"`
}

// evalSet checks one flow set in one insertion order against all transactions.
func evalSet(r *mc.Run, flows []flowSpec, order []int, txns []txn, firstOrder map[int][]string) {
	tree := streamfilter.NewFilterTree()
	for _, i := range order {
		if err := tree.AddFlow(mkFlow(i, flows[i])); err != nil {
			r.Outcome("addflow-error")
			return
		}
	}
	var patterns []string
	for _, f := range flows {
		patterns = append(patterns, f.Pattern)
	}
	for ti := range txns {
		x := txns[ti]
		sel := selected(tree, x)
		r.Add("evaluations", 1)
		selSet := map[string]bool{}
		for _, n := range sel {
			selSet[n] = true
		}
		var want []string
		for i, f := range flows {
			name := fmt.Sprintf("f%d", i)
			acc, certain := accepts(f, x)
			if selSet[name] && !acc {
				viol(r, "ONLY-IF", flows, order, x, fmt.Sprintf("flow %s was selected for [%s] although its own filter does not accept it (selected %v)", f, x, sel))
			}
			if acc && certain && !selSet[name] && !refurl.Shadowed(f.Pattern, patterns, x.URL) {
				viol(r, "IF", flows, order, x, fmt.Sprintf("flow %s accepts [%s] and no more specific literal pattern is configured, but it was not selected (selected %v)", f, x, sel))
			}
			if acc {
				want = append(want, name)
			}
		}
		key := strings.Join(sel, ",")
		if firstOrder != nil {
			if prev, ok := firstOrder[ti]; ok {
				if strings.Join(prev, ",") != key {
					viol(r, "ORDER", flows, order, x, fmt.Sprintf("selection for [%s] depends on the load order: %v vs %v", x, prev, sel))
				}
			} else {
				firstOrder[ti] = sel
			}
		}
		if len(want) > 0 {
			r.Outcome(fmt.Sprintf("accepting=%d selected=%d", len(want), len(sel)))
		}
	}
}

var curRun *mc.Run

func viol(r *mc.Run, clause string, flows []flowSpec, order []int, x txn, what string) {
	// key: clause + shape of the flow set (constraint kinds, pattern relation), not the concrete strings
	var kinds []string
	for _, f := range flows {
		t := "u"
		if f.System {
			t = "s"
		}
		kinds = append(kinds, constraints[f.C].Name+"/"+t)
	}
	sort.Strings(kinds)
	x.stream = nil
	r.Violation(clause+":"+shape(flows, x)+":"+strings.Join(kinds, "+"), fmt.Sprintf("flows=%v order=%v: %s", flows, order, what),
		replay{flows, append([]int{}, order...), x})
}

// shape abstracts how the transaction's URL relates to the configured patterns.
func shape(flows []flowSpec, x txn) string {
	var s []string
	for _, f := range flows {
		mk, _ := refurl.Match(f.Pattern, x.URL)
		up, pp := refurl.Split(x.URL), refurl.Split(f.Pattern)
		rel := "nomatch"
		switch {
		case mk == refurl.Yes:
			rel = "match"
		case mk == refurl.ZeroTail:
			rel = "zerotail"
		case len(up) > len(pp):
			rel = "url-longer"
		case len(up) < len(pp):
			rel = "url-shorter"
		}
		wc := ""
		if strings.HasSuffix(f.Pattern, "*") {
			wc = "*"
		}
		s = append(s, rel+wc)
	}
	sort.Strings(s)
	return strings.Join(s, ",")
}

func TestCheck(t *testing.T) {
	r := mc.New("C03", "exploration")
	// patterns
	segs := []string{"a", "b", "{p}"}
	patterns := []string{"h.com", "h.com/*"}
	for _, s := range segs {
		patterns = append(patterns, "h.com/"+s)
		for _, s2 := range append(append([]string{}, segs...), "*") {
			patterns = append(patterns, "h.com/"+s+"/"+s2)
		}
	}
	if r.Thorough() {
		for _, s := range segs {
			for _, s2 := range segs {
				for _, s3 := range append(append([]string{}, segs...), "*") {
					patterns = append(patterns, "h.com/"+s+"/"+s2+"/"+s3)
				}
			}
		}
	}
	// transactions
	var urls []string
	mc.Sequences(3, 3, func(idx []int) bool {
		u := "h.com"
		for _, i := range idx {
			u += "/" + []string{"a", "b", "c"}[i]
		}
		urls = append(urls, u)
		return true
	})
	var txns []txn
	for _, u := range urls {
		for _, m := range []string{"GET", "POST"} {
			for _, h := range []string{"", "1"} {
				for _, q := range []string{"", "1"} {
					txns = append(txns, txn{URL: u, Method: m, Header: h, Query: q})
				}
			}
			for _, st := range []int{200, 500} {
				txns = append(txns, txn{URL: u, Method: m, Resp: true, Status: st})
			}
		}
	}
	for i := range txns {
		txns[i].stream = mkStream(txns[i])
	}
	if f := mc.ReplayFile(); f != "" {
		var er engineReplay
		if err := mc.LoadReplay(f, &er); err == nil && er.Family == "engine" {
			replayEngine(t, r, er)
			return
		}
		var rp replay
		if err := mc.LoadReplay(f, &rp); err != nil {
			t.Fatal(err)
		}
		rp.Txn.stream = mkStream(rp.Txn)
		evalSet(r, rp.Flows, rp.Order, []txn{rp.Txn}, nil)
		fmt.Printf("replay flows=%v order=%v txn=[%s] -> %d finding(s)\n", rp.Flows, rp.Order, rp.Txn, r.NumFindings())
		if r.NumFindings() > 0 {
			t.Fail()
		}
		return
	}
	// flow universe
	var universe []flowSpec
	for _, p := range patterns {
		for c := range constraints {
			universe = append(universe, flowSpec{p, c, false})
		}
		universe = append(universe, flowSpec{p, 0, true}, flowSpec{p, 1, true})
	}
	maxSet := 2
	r.Rule = fmt.Sprintf("all flow sets of size 1..%d over %d (pattern, constraint, user|system) combinations (%d patterns over host h.com and path parts {a,b,{p},*}) x every insertion order x %d transactions (paths of length 0-3 over {a,b,c} x GET/POST x header x query x request/response 200/500) through the real FilterTree; triples: all sets of three over 24 combinations (8 patterns x {none, GET, header} x user flows) in every order; ports: all sets of <=3 over 7 patterns with and without a port in the host x {none, GET} in every order x transactions to four ports and no port; engine level: all sets of <=2 over 48 combinations, alone and next to a quota (system flows) on one of two patterns, written as YAML, loaded into a real Stream by the real loader and driven through the request/response entry points with a recording wrapper around every processor (which flows ran; nothing runs and no action is returned when no filter matches); non-trivial = a transaction for which at least one configured flow's filter accepts; distinct = (flow set, order, transaction)", maxSet, len(universe), len(patterns), len(txns))
	r.Assume("header and query constraints are asserted on the request side only (the response message carries no request headers/query); status only on the response side",
		"a trailing wildcard matched with zero further segments is left open (neither required nor forbidden)",
		"methods limited to GET/POST so the default five-method list of system flows is not at issue")
	if r.Parallel(t, 16) {
		r.Finish(t)
		return
	}
	idx := 0
	mc.Subsets(len(universe), 1, maxSet, func(s []int) bool {
		idx++
		if !r.Mine(idx) {
			return true
		}
		flows := make([]flowSpec, len(s))
		for i, k := range s {
			flows[i] = universe[k]
		}
		first := map[int][]string{}
		mc.Permutations(len(flows), func(p []int) bool {
			evalSet(r, flows, p, txns, first)
			return true
		})
		r.NonTrivial(fmt.Sprint(flows))
		if idx%50021 == 7 {
			r.Sample(map[string]any{"flows": fmt.Sprint(flows), "orders": len(flows), "transactions": len(txns)})
		}
		return true
	})
	// triples over a reduced universe (8 patterns x {none, GET, hdr} x user flows)
	var small []flowSpec
	for _, p := range []string{"h.com", "h.com/*", "h.com/a", "h.com/a/*", "h.com/{p}", "h.com/a/b", "h.com/a/{p}", "h.com/{p}/b"} {
		for _, c := range []int{0, 1, 3} {
			small = append(small, flowSpec{p, c, false})
		}
	}
	mc.Subsets(len(small), 3, 3, func(s []int) bool {
		idx++
		if !r.Mine(idx) {
			return true
		}
		flows := make([]flowSpec, len(s))
		for i, k := range s {
			flows[i] = small[k]
		}
		first := map[int][]string{}
		mc.Permutations(len(flows), func(p []int) bool {
			evalSet(r, flows, p, txns, first)
			return true
		})
		r.NonTrivial(fmt.Sprint(flows))
		return true
	})
	// ports: a port in the host part is part of the host (patterns and traffic that differ only
	// in the port are different endpoints); all sets of <=3 over 7 patterns x {none, GET} in
	// every order x transactions to four ports and no port
	var ported []flowSpec
	for _, p := range []string{"h.com/a", "h.com:8080/a", "h.com:9090/a", "h.com:8080/*", "h.com/*", "h.com:8080/{p}", "h.com:9090"} {
		for _, c := range []int{0, 1} {
			ported = append(ported, flowSpec{p, c, false})
		}
	}
	var ptxns []txn
	for _, u := range []string{"h.com/a", "h.com:8080/a", "h.com:9090/a", "h.com:7070/a", "h.com:8080/b", "h.com:9090", "h.com:443/a", "h.com"} {
		for _, m := range []string{"GET", "POST"} {
			ptxns = append(ptxns, txn{URL: u, Method: m}, txn{URL: u, Method: m, Resp: true, Status: 200})
		}
	}
	for i := range ptxns {
		ptxns[i].stream = mkStream(ptxns[i])
	}
	mc.Subsets(len(ported), 1, 3, func(s []int) bool {
		idx++
		if !r.Mine(idx) {
			return true
		}
		flows := make([]flowSpec, len(s))
		for i, k := range s {
			flows[i] = ported[k]
		}
		first := map[int][]string{}
		mc.Permutations(len(flows), func(p []int) bool {
			evalSet(r, flows, p, ptxns, first)
			return true
		})
		r.NonTrivial(fmt.Sprint(flows))
		return true
	})
	engineFamily(t, r, txns)
	r.Finish(t)
}
