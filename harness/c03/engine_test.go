package c03

// Engine-level pass: the same statement observed one level up.  Flow sets are written as
// YAML, loaded by the real loader into a real streams.Stream (flows are attached in whatever
// order the loader's maps give), and every transaction is driven through the request and the
// response entry point; a recording wrapper around every processor factory tells which flows
// actually ran.  A quota whose filter is one of the patterns adds system flows on that node.

import (
	"fmt"
	"sort"
	"strings"
	"testing"

	"verifharness/eng"
	"verifharness/mc"
	"verifharness/probe"
	"verifharness/refurl"
)

func flowYAMLOf(i int, f flowSpec) string {
	c := constraints[f.C]
	var sb strings.Builder
	fmt.Fprintf(&sb, "name: f%d\nfilter:\n  url: %q\n", i, f.Pattern)
	if len(c.Method) > 0 {
		fmt.Fprintf(&sb, "  method: [%s]\n", strings.Join(c.Method, ", "))
	}
	if c.Header != "" {
		fmt.Fprintf(&sb, "  headers:\n    - key: x\n      value: %q\n", c.Header)
	}
	if c.Query != "" {
		fmt.Fprintf(&sb, "  query_params:\n    - key: q\n      value: %q\n", c.Query)
	}
	if c.Status != 0 {
		fmt.Fprintf(&sb, "  status_code: [%d]\n", c.Status)
	}
	sb.WriteString(`processors:
  P:
    processor: VerifProbe
  R:
    processor: VerifProbe
flow:
  request:
    - from:
        stream:
          name: globalStream
          at: start
      to:
        processor:
          name: P
    - from:
        processor:
          name: P
      to:
        stream:
          name: globalStream
          at: end
  response:
    - from:
        stream:
          name: globalStream
          at: start
      to:
        processor:
          name: R
    - from:
        processor:
          name: R
      to:
        stream:
          name: globalStream
          at: end
`)
	return sb.String()
}

type engineReplay struct {
	Family string     `json:"family"`
	Flows  []flowSpec `json:"flows"`
	Quota  string     `json:"quota_filter,omitempty"`
	Txn    txn        `json:"txn"`
}

func engineSet(r *mc.Run, procDir string, flows []flowSpec, quotaPattern string, txns []txn) {
	files := eng.Files{Flows: map[string]string{}}
	for i, f := range flows {
		files.Flows[fmt.Sprintf("f%d.yaml", i)] = flowYAMLOf(i, f)
	}
	if quotaPattern != "" {
		files.Quotas = map[string]string{"q.yaml": fmt.Sprintf("quotas:\n  - id: Q\n    filter:\n      url: %q\n    strategy:\n      fixed_window:\n        max: 1000000\n        interval: 60\n        interval_unit: second\n", quotaPattern)}
	}
	s, _, err := eng.NewStreamP(files, procDir)
	if err != nil {
		r.Outcome("engine-load-rejected: " + strings.SplitN(err.Error(), ":", 2)[0])
		return
	}
	var patterns []string
	for _, f := range flows {
		patterns = append(patterns, f.Pattern)
	}
	if quotaPattern != "" {
		patterns = append(patterns, quotaPattern)
	}
	for _, x := range txns {
		probe.Reset(nil)
		hs := map[string]string{}
		if x.Header != "" {
			hs["x"] = x.Header
		}
		q := ""
		if x.Query != "" {
			q = "q=" + x.Query
		}
		var actions int
		var errStr string
		if !x.Resp {
			v := eng.OnRequest(s, eng.Req{ID: "1", Method: x.Method, URL: x.URL, Query: q, Headers: hs})
			actions, errStr = len(v.Actions), v.Err
		} else {
			v := eng.OnResponse(s, eng.Resp{ID: "1", Method: x.Method, URL: x.URL, Status: x.Status})
			actions, errStr = len(v.Actions), v.Err
		}
		r.Add("evaluations", 1)
		ranUser := map[string]bool{}
		ranSystem := false
		for _, e := range probe.Events {
			if strings.HasPrefix(e.Flow, "f") {
				ranUser[e.Flow] = true
			} else {
				ranSystem = true
			}
		}
		fail := func(clause, what string) {
			var kinds []string
			for _, f := range flows {
				kinds = append(kinds, constraints[f.C].Name+"/u")
			}
			if quotaPattern != "" {
				kinds = append(kinds, "quota/s")
			}
			sort.Strings(kinds)
			y := x
			y.stream = nil
			r.Violation("engine:"+clause+":"+shape(flows, x)+":"+strings.Join(kinds, "+"), fmt.Sprintf("engine level, flows=%v quota filter=%q: %s", flows, quotaPattern, what),
				engineReplay{"engine", flows, quotaPattern, y})
		}
		if errStr != "" {
			fail("ERROR", fmt.Sprintf("[%s] ended with an engine error: %s", x, errStr))
			continue
		}
		anyAccepts := false
		for i, f := range flows {
			name := fmt.Sprintf("f%d", i)
			acc, certain := accepts(f, x)
			if acc {
				anyAccepts = true
			}
			if ranUser[name] && !acc {
				fail("ONLY-IF", fmt.Sprintf("flow %s ran for [%s] although its own filter does not accept it (ran %v)", f, x, probe.Trace()))
			}
			if acc && certain && !ranUser[name] && !refurl.Shadowed(f.Pattern, patterns, x.URL) {
				fail("IF", fmt.Sprintf("flow %s accepts [%s] and no more specific literal pattern is configured, but it did not run (ran %v)", f, x, probe.Trace()))
			}
		}
		if quotaPattern != "" {
			mk, _ := refurl.Match(quotaPattern, x.URL)
			if ranSystem && mk == refurl.No {
				fail("ONLY-IF", fmt.Sprintf("the quota's system flow ran for [%s], which its filter %s does not accept (ran %v)", x, quotaPattern, probe.Trace()))
			}
			if mk != refurl.No {
				anyAccepts = true
			}
		}
		if !anyAccepts && (len(probe.Events) > 0 || actions > 0) {
			fail("NO-MATCH-NOT-PASSED-THROUGH", fmt.Sprintf("[%s] matches no configured filter but %d processors ran and %d actions were returned", x, len(probe.Events), actions))
		}
		if anyAccepts {
			r.Outcome(fmt.Sprintf("engine: user flows ran=%d", len(ranUser)))
		}
	}
}

func engineFamily(t *testing.T, r *mc.Run, txns []txn) {
	procDir := probe.Install()
	pats := []string{"h.com", "h.com/*", "h.com/a", "h.com/a/*", "h.com/{p}", "h.com/a/b", "h.com/a/{p}", "h.com/{p}/b"}
	var universe []flowSpec
	for _, p := range pats {
		for c := range constraints {
			universe = append(universe, flowSpec{p, c, false})
		}
	}
	idx := 1 << 26
	mc.Subsets(len(universe), 1, 2, func(s []int) bool {
		flows := make([]flowSpec, len(s))
		for i, k := range s {
			flows[i] = universe[k]
		}
		for _, qp := range []string{"", "h.com/a/*", "h.com/{p}"} {
			if qp != "" && len(flows) > 1 && flows[0].C != 0 && flows[1].C != 0 {
				continue // with a quota: sets in which at least one flow is unconstrained
			}
			idx++
			if !r.Mine(idx) {
				continue
			}
			engineSet(r, procDir, flows, qp, txns)
			r.NonTrivial(fmt.Sprint("engine", flows, qp))
		}
		return true
	})
}

func replayEngine(t *testing.T, r *mc.Run, rp engineReplay) {
	procDir := probe.Install()
	rp.Txn.stream = mkStream(rp.Txn)
	engineSet(r, procDir, rp.Flows, rp.Quota, []txn{rp.Txn})
	fmt.Printf("replay engine level flows=%v quota=%q txn=[%s] -> %d finding(s)\n", rp.Flows, rp.Quota, rp.Txn, r.NumFindings())
	if r.NumFindings() > 0 {
		t.Fail()
	}
}
