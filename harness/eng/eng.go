// Package eng builds real lunar flow engines (streams.Stream) from generated YAML files in
// a scratch directory and drives transactions through them the way
// routing.processRequest / processResponse do.
package eng

import (
	"crypto/sha1"
	"encoding/hex"
	"fmt"
	"os"
	"path/filepath"
	"sort"
	"strings"

	"lunar/engine/actions"
	lunar_messages "lunar/engine/messages"
	"lunar/engine/runner"
	"lunar/engine/streams"
	stream_config "lunar/engine/streams/config"
	lunar_context "lunar/engine/streams/lunar-context"
	publictypes "lunar/engine/streams/public-types"
	stream_types "lunar/engine/streams/types"
	"lunar/engine/utils/environment"
	"verifharness/mc"
)

const RegistryDir = "/repo/proxy/src/services/lunar-engine/streams/processors/registry"

// Files is a configuration: file name -> YAML text, per directory.
type Files struct {
	Flows      map[string]string
	Quotas     map[string]string
	PathParams map[string]string
}

var dirCounter int
var dirCache = map[string]string{}
var dirOrder []string // cache keys in insertion order

func contentKey(f Files, processorsDir string) string {
	h := sha1.New()
	for _, m := range []map[string]string{f.Flows, f.Quotas, f.PathParams} {
		for _, k := range SortedKeys(m) {
			fmt.Fprintf(h, "%s\x00%s\x00", k, m[k])
		}
		h.Write([]byte{1})
	}
	h.Write([]byte(processorsDir))
	return hex.EncodeToString(h.Sum(nil))
}

// Dir creates a fresh scratch root with flows/ quotas/ path_params/ and points the engine's
// environment at it.  ProcessorsDir defaults to the repository's registry.
func Dir(f Files, processorsDir string) (string, error) {
	// identical configurations share one scratch directory (engines only read it); it is
	// removed with the process's work directory
	ck := contentKey(f, processorsDir)
	if root, ok := dirCache[ck]; ok {
		Point(root, processorsDir)
		return root, nil
	}
	dirCounter++
	root := filepath.Join(mc.WorkDir(), fmt.Sprintf("eng%d", dirCounter))
	for sub, files := range map[string]map[string]string{"flows": f.Flows, "quotas": f.Quotas, "path_params": f.PathParams} {
		d := filepath.Join(root, sub)
		if err := os.MkdirAll(d, 0o755); err != nil {
			return "", err
		}
		for name, text := range files {
			if err := os.WriteFile(filepath.Join(d, name), []byte(text), 0o644); err != nil {
				return "", err
			}
		}
	}
	Point(root, processorsDir)
	dirCache[ck] = root
	dirOrder = append(dirOrder, ck)
	// bound the cache: enumerations with millions of distinct configurations would otherwise
	// fill the scratch file system; the engines built from the oldest directories are long
	// gone (a directory is only read while its engine is loaded)
	if len(dirOrder) > 3000 {
		for _, old := range dirOrder[:1500] {
			if r, ok := dirCache[old]; ok {
				_ = os.RemoveAll(r)
				delete(dirCache, old)
			}
		}
		dirOrder = append([]string{}, dirOrder[1500:]...)
	}
	return root, nil
}

// Point sets the engine's directory environment to an existing scratch root.
func Point(root, processorsDir string) {
	if processorsDir == "" {
		processorsDir = RegistryDir
	}
	environment.SetStreamsFlowsDirectory(filepath.Join(root, "flows"))
	environment.SetQuotasDirectory(filepath.Join(root, "quotas"))
	environment.SetPathParamsDirectory(filepath.Join(root, "path_params"))
	environment.SetProcessorsDirectory(processorsDir)
	os.Setenv("LUNAR_STREAMS_ENABLED", "true")
}

// NewStream builds and initialises a real engine from the files.
func NewStream(f Files) (*streams.Stream, string, error) { return NewStreamP(f, "") }

// NewStreamP is NewStream with an explicit processor-definitions directory.
func NewStreamP(f Files, processorsDir string) (*streams.Stream, string, error) {
	root, err := Dir(f, processorsDir)
	if err != nil {
		return nil, "", err
	}
	s, err := streams.NewStream()
	if err != nil {
		return nil, root, err
	}
	if err := s.Initialize(); err != nil {
		return nil, root, err
	}
	return s, root, nil
}

// Remove is kept for callers that own a private directory; shared (cached) configuration
// directories stay until the process exits.
func Remove(root string) {
	for _, r := range dirCache {
		if r == root {
			return
		}
	}
	_ = os.RemoveAll(root)
}

var SharedState = lunar_context.NewMemoryState[[]byte]()

// LastContext is the execution context the last transaction ended with (the context of the
// last flow that ran for it): lets harnesses dump the flow context for state keys.
var LastContext publictypes.LunarContextI

type Req struct {
	ID      string
	Seq     string
	Method  string
	URL     string // host/path without scheme and query
	Query   string
	Headers map[string]string
	Body    string
}

func (r Req) msg() lunar_messages.OnRequest {
	h := map[string]string{}
	for k, v := range r.Headers {
		h[k] = v
	}
	seq := r.Seq
	if seq == "" {
		seq = r.ID
	}
	path := ""
	if i := strings.IndexByte(r.URL, '/'); i >= 0 {
		path = r.URL[i:]
	}
	m := r.Method
	if m == "" {
		m = "GET"
	}
	return lunar_messages.OnRequest{ID: r.ID, SequenceID: seq, Method: m, Scheme: "https", URL: r.URL, Path: path,
		Query: r.Query, Headers: h, Body: r.Body, RawBody: []byte(r.Body)}
}

// Verdict is what the proxy is told for a transaction.
type Verdict struct {
	Early   bool
	Status  int
	Body    string
	Actions []string // action type names in order
	Err     string
	Raw     []actions.ReqLunarAction
}

func (v Verdict) String() string {
	if v.Err != "" {
		return "error:" + v.Err
	}
	if v.Early {
		return fmt.Sprintf("early(%d)", v.Status)
	}
	if len(v.Actions) == 0 {
		return "pass"
	}
	return "pass" + fmt.Sprint(v.Actions)
}

// OnRequest runs the request side exactly like routing.processRequest (flows mode).
func OnRequest(s *streams.Stream, r Req) Verdict {
	api := stream_types.NewRequestAPIStream(r.msg(), SharedState)
	fa := &stream_config.StreamActions{Request: &stream_config.RequestStream{}}
	var v Verdict
	err := runner.RunFlow(s, api, fa)
	LastContext = api.GetContext()
	if err != nil {
		v.Err = err.Error()
		return v
	}
	v.Raw = fa.Request.Actions
	for _, a := range fa.Request.Actions {
		v.Actions = append(v.Actions, strings.TrimPrefix(fmt.Sprintf("%T", a), "*actions."))
		if e, ok := a.(*actions.EarlyResponseAction); ok && !v.Early {
			v.Early, v.Status, v.Body = true, e.Status, e.Body
		}
	}
	return v
}

type Resp struct {
	ID      string
	Seq     string
	Method  string
	URL     string
	Status  int
	Headers map[string]string
	Body    string
}

type RespVerdict struct {
	Actions []string
	Err     string
	Raw     []actions.RespLunarAction
}

func (v RespVerdict) String() string {
	if v.Err != "" {
		return "error:" + v.Err
	}
	return fmt.Sprint(v.Actions)
}

// OnResponse runs the response side exactly like routing.processResponse (flows mode).
func OnResponse(s *streams.Stream, r Resp) RespVerdict {
	h := map[string]string{}
	for k, v := range r.Headers {
		h[k] = v
	}
	seq := r.Seq
	if seq == "" {
		seq = r.ID
	}
	m := r.Method
	if m == "" {
		m = "GET"
	}
	st := r.Status
	if st == 0 {
		st = 200
	}
	api := stream_types.NewResponseAPIStream(lunar_messages.OnResponse{ID: r.ID, SequenceID: seq, Method: m, URL: r.URL,
		Status: st, Headers: h, Body: r.Body, RawBody: []byte(r.Body)}, SharedState)
	fa := &stream_config.StreamActions{Response: &stream_config.ResponseStream{}}
	var v RespVerdict
	err := runner.RunFlow(s, api, fa)
	LastContext = api.GetContext()
	if err != nil {
		v.Err = err.Error()
		return v
	}
	v.Raw = fa.Response.Actions
	for _, a := range fa.Response.Actions {
		v.Actions = append(v.Actions, strings.TrimPrefix(fmt.Sprintf("%T", a), "*actions."))
	}
	return v
}

// SortedKeys is a small helper for deterministic YAML generation.
func SortedKeys[V any](m map[string]V) []string {
	ks := make([]string, 0, len(m))
	for k := range m {
		ks = append(ks, k)
	}
	sort.Strings(ks)
	return ks
}
