// C17 — retries are bounded by the configured number of attempts.
// Engine: seqx history BFS over provider-status histories of two interleaved sequences,
// policy mode (real RetryPlugin.OnResponse) and flows mode (real Stream from YAML with the
// Retry processor), in a virtual-time bubble; the harness plays the client protocol
// (a retry instruction is followed by a retry attempt of the same sequence).
package c17

import (
	"fmt"
	lunarcontext "lunar/engine/streams/lunar-context"
	publictypes "lunar/engine/streams/public-types"
	"os"
	"sort"
	"strings"
	"testing"
	"testing/synctest"
	"time"

	"lunar/engine/actions"
	lunarMessages "lunar/engine/messages"
	"lunar/engine/services/remedies"
	"lunar/engine/streams"
	sharedConfig "lunar/shared-model/config"
	"lunar/toolkit-core/clock"
	"verifharness/eng"
	"verifharness/mc"
)

type cfg struct {
	Mode     string // "policy" | "flows"
	Attempts int
	Cooldown int
	Mult     int
	// Prefill: the history starts in a state in which this many OTHER sequences are in the
	// middle of their retries (their state is held by the remedy): a non-initial start state
	Prefill int
}

func (c cfg) String() string {
	s := fmt.Sprintf("%s attempts=%d cooldown=%d multiplier=%d", c.Mode, c.Attempts, c.Cooldown, c.Mult)
	if c.Prefill > 0 {
		s += fmt.Sprintf(" start=%d-other-sequences-retrying", c.Prefill)
	}
	return s
}

var statuses = []int{200, 500, 503, 404}

type event struct {
	seq    int // 0,1 ; -1 = tick
	status int
	tick   time.Duration
}

func (e event) String() string {
	if e.seq < 0 {
		return fmt.Sprintf("tick(%v)", e.tick)
	}
	return fmt.Sprintf("resp(%s,%d)", []string{"X", "Y"}[e.seq], e.status)
}

func alphabet(c cfg) []event {
	var ev []event
	sts := statuses
	if c.Mode == "flows" || c.Prefill > 0 {
		sts = []int{200, 500} // one in-condition, one out-of-condition status (engine runs are ~2.5 ms each)
	}
	for s := 0; s < 2; s++ {
		for _, st := range sts {
			ev = append(ev, event{seq: s, status: st})
		}
	}
	ev = append(ev, event{seq: -1, tick: time.Second})
	if c.Mode == "policy" && c.Prefill == 0 {
		ev = append(ev, event{seq: -1, tick: 5 * time.Minute}) // beyond the retry-state TTL
	}
	if c.Mode == "flows" {
		// beyond the proxy's retry-request timeout (600 s in this harness): a slow provider
		ev = append(ev, event{seq: -1, tick: 11 * time.Minute})
	}
	return ev
}

type seqRef struct {
	attempt      int  // attempts made in the current logical call (0 = none yet)
	retriesAsked int  // retry instructions given in the current logical call
	inCall       bool // last answer was "retry": the next response of this sequence is a retry attempt
	lastAt       time.Time
	calls        int
	// how the previous logical call ended: "" | "failed" | "ok-after-N-retries"
	prevEnd string
	// a call of this sequence ended successfully after at least one retry and no call has
	// been reported failed since (flows mode keeps that call's counter: known finding)
	leaked bool
}

type model struct {
	c      cfg
	alpha  []event
	plugin *remedies.RetryPlugin
	rc     *sharedConfig.RetryConfig
	stream *streams.Stream
	root   string
	ref    [2]seqRef
	// flow context of the retry flow (per-sequence counters of the Retry processor)
	flowCtx publictypes.ContextI
}

func flowYAML(c cfg) string {
	return fmt.Sprintf(`name: retryflow
filter:
  url: h.com/*
processors:
  F:
    processor: Filter
    parameters:
      - key: status_code_range
        value: "500-599"
  R:
    processor: Retry
    parameters:
      - key: attempts
        value: %d
      - key: cooldown_between_attempts_seconds
        value: %d
      - key: cooldown_multiplier
        value: %d
flow:
  request:
    - from:
        stream:
          name: globalStream
          at: start
      to:
        stream:
          name: globalStream
          at: end
  response:
    - from:
        stream:
          name: globalStream
          at: start
      to:
        processor:
          name: F
    - from:
        processor:
          name: F
          condition: hit
      to:
        processor:
          name: R
    - from:
        processor:
          name: F
          condition: miss
      to:
        stream:
          name: globalStream
          at: end
    - from:
        processor:
          name: R
          condition: retry
      to:
        stream:
          name: globalStream
          at: end
    - from:
        processor:
          name: R
          condition: failed
      to:
        stream:
          name: globalStream
          at: end
`, c.Attempts, c.Cooldown, c.Mult)
}

func newModel(c cfg) *model {
	m := &model{c: c, alpha: alphabet(c)}
	if c.Mode == "policy" {
		m.plugin = remedies.NewRetryPlugin(clock.NewRealClock())
		m.rc = &sharedConfig.RetryConfig{Attempts: c.Attempts, InitialCooldownSeconds: c.Cooldown, CooldownMultiplier: c.Mult,
			Conditions: sharedConfig.RetryConfigConditions{StatusCode: []sharedConfig.Range[int]{{From: 500, To: 599}}}}
		for i := 0; i < c.Prefill; i++ {
			// another client's call failed once and was told to retry
			id := fmt.Sprintf("other-%d", i)
			if _, err := m.plugin.OnResponse(lunarMessages.OnResponse{ID: id, SequenceID: id, Method: "GET", URL: "h.com/a", Status: 503, Headers: map[string]string{}}, m.rc); err != nil {
				panic(err)
			}
		}
		return m
	}
	os.Setenv("LUNAR_RETRY_REQUEST_TIMEOUT_SEC", "600")
	s, root, err := eng.NewStream(eng.Files{Flows: map[string]string{"retry.yaml": flowYAML(c)}})
	if err != nil {
		panic("flows-mode engine did not load: " + err.Error())
	}
	m.stream, m.root = s, root
	return m
}

func (m *model) close() {
	if m.root != "" {
		eng.Remove(m.root)
	}
}

func (m *model) Apply(ei int) string {
	e := m.alpha[ei]
	if e.seq < 0 {
		time.Sleep(e.tick)
		return ""
	}
	rs := &m.ref[e.seq]
	name := []string{"X", "Y"}[e.seq]
	// the client protocol: a retry instruction is followed by a retry attempt (new id, same
	// sequence id); anything else ends the logical call and the next response starts a new one
	if !rs.inCall {
		rs.attempt, rs.retriesAsked = 0, 0
		rs.calls++
	}
	rs.attempt++
	id := name
	if rs.attempt > 1 {
		id = fmt.Sprintf("%s#%d.%d", name, rs.calls, rs.attempt)
	}
	start := time.Now()
	stale := !rs.lastAt.IsZero() && start.Sub(rs.lastAt) > 30*time.Second // policy-mode state may have expired
	asked := false
	switch m.c.Mode {
	case "policy":
		act, err := m.plugin.OnResponse(lunarMessages.OnResponse{ID: id, SequenceID: name, Method: "GET", URL: "h.com/a", Status: e.status, Headers: map[string]string{}}, m.rc)
		if err != nil {
			return "ERROR " + err.Error()
		}
		if mr, ok := act.(*actions.ModifyResponseAction); ok {
			_, asked = mr.HeadersToSet[remedies.LunarRetryAfterHeaderName]
		}
	case "flows":
		v := eng.OnResponse(m.stream, eng.Resp{ID: id, Seq: name, Method: "GET", URL: "h.com/a", Status: e.status})
		if c := eng.LastContext; c != nil && c.GetFlowContext() != nil {
			m.flowCtx = c.GetFlowContext()
		}
		if v.Err != "" {
			return "ERROR " + v.Err
		}
		for _, a := range v.Actions {
			if a == "RetryRequestAction" {
				asked = true
			}
		}
	}
	rs.lastAt = time.Now()
	inCond := e.status >= 500 && e.status <= 599
	defer func() { rs.inCall = asked }()
	if !inCond {
		if asked {
			return fmt.Sprintf("OUT-OF-CONDITION status %d of sequence %s triggered a retry", e.status, name)
		}
		rs.prevEnd = "ok-after-0-retries"
		if rs.retriesAsked > 0 {
			rs.prevEnd = "ok-after-retries"
			rs.leaked = true // flows mode keeps the counter of this call (known finding)
		}
		return ""
	}
	if asked {
		rs.retriesAsked++
		if rs.retriesAsked > m.c.Attempts {
			return fmt.Sprintf("TOO-MANY-RETRIES sequence %s was asked to retry %d times in one call, configured attempts %d", name, rs.retriesAsked, m.c.Attempts)
		}
		return ""
	}
	// failure reported: legal only when the configured retries are used up (or the state expired)
	if rs.retriesAsked < m.c.Attempts && !stale {
		clause := "EARLY-FAILURE"
		if m.c.Mode == "flows" && rs.leaked {
			// the Retry processor never sees the out-of-condition response that ended the
			// previous call (the Filter routes it away), so its counter is kept
			clause = "EARLY-FAILURE:flows:counter-kept-after-successful-retry"
		}
		return fmt.Sprintf("%s sequence %s (call %d, previous call ended %q) was reported failed after %d of %d retries", clause, name, rs.calls, rs.prevEnd, rs.retriesAsked, m.c.Attempts)
	}
	rs.prevEnd = "failed"
	rs.leaked = false // exhaustion removes the counter
	return ""
}

func (m *model) Key() string {
	var p []string
	for i := range m.ref {
		r := m.ref[i]
		age := "-"
		if !r.lastAt.IsZero() {
			d := time.Since(r.lastAt)
			switch {
			case d > 30*time.Second:
				age = "old"
			default:
				age = "fresh"
			}
		}
		firstCall := r.calls <= 1
		p = append(p, fmt.Sprintf("%d/%d/%v/%s/%v/%s/%v", r.attempt, r.retriesAsked, r.inCall, age, firstCall, r.prevEnd, r.leaked))
	}
	sort.Strings(p[:0])
	// implementation state: states are merged only when the remedy's / processor's own
	// per-sequence bookkeeping agrees as well
	impl := ""
	if m.plugin != nil {
		impl = remedies.VerifRetryState(m.plugin, time.Now())
		if m.c.Prefill > 0 {
			// the other sequences' entries are the same in every state of this family except
			// for their age, which the ages of X and Y determine: only their number is kept
			var keep []string
			others := 0
			for _, part := range strings.Split(impl, ";") {
				if strings.HasPrefix(part, "other-") {
					others++
				} else {
					keep = append(keep, part)
				}
			}
			impl = fmt.Sprintf("%s;others=%d", strings.Join(keep, ";"), others)
		}
	} else if m.flowCtx != nil {
		impl = lunarcontext.VerifDumpContext(m.flowCtx)
	}
	return strings.Join(p, "|") + "||" + impl
}

func configs() []cfg {
	var cs []cfg
	for _, mode := range []string{"policy", "flows"} {
		for _, a := range []int{1, 2, 3} {
			for _, cd := range []int{0, 1} {
				for _, mu := range []int{1, 2} {
					cs = append(cs, cfg{Mode: mode, Attempts: a, Cooldown: cd, Mult: mu})
				}
			}
		}
	}
	// policy mode from a non-initial state: 1100 other sequences are in the middle of their
	// retries (more than any plausible internal bound on tracked sequences up to 1024)
	cs = append(cs, cfg{Mode: "policy", Attempts: 3, Cooldown: 0, Mult: 1, Prefill: 1100})
	return cs
}

func TestCheck(t *testing.T) {
	r := mc.New("C17", "exploration")
	cs := configs()
	if f := mc.ReplayFile(); f != "" {
		var dr dispatchReplay
		if err := mc.LoadReplay(f, &dr); err == nil && dr.Family == "dispatcher" {
			fail := dispatchCase(t, dr.Attempts, dr.Order)
			fmt.Printf("dispatcher attempts=%d order=%s -> %q\n", dr.Attempts, dr.Order, fail)
			if fail != "" {
				t.Fail()
			}
			return
		}
		var rp mc.BFSReplay
		if err := mc.LoadReplay(f, &rp); err != nil {
			t.Fatal(err)
		}
		for _, c := range cs {
			if c.String() != rp.Model {
				continue
			}
			synctest.Test(t, func(t *testing.T) {
				m := newModel(c)
				defer m.close()
				for i, e := range rp.Path {
					fail := m.Apply(e)
					fmt.Printf("%2d %-14s -> %q   ref=%s\n", i, m.alpha[e], fail, m.Key())
					if fail != "" {
						t.Fail()
					}
				}
			})
		}
		return
	}
	r.Rule = fmt.Sprintf("explicit-state BFS over histories of provider statuses {200,404,500,503} of two interleaved sequences X,Y plus clock steps, for %d configurations (policy|flows mode x attempts 1-3 x cool-down 0-1 x multiplier 1-2, plus policy mode started from a state with 1100 other sequences in the middle of their retries); clock steps 1 s, 5 min (policy: beyond the state TTL), 11 min (flows: beyond the retry-request timeout); depth attempts+5 (thorough: 2*attempts+6); the harness plays the client protocol; every transition runs the real RetryPlugin / a real Stream with the Retry processor; plus, through the real runner.DispatchOnRequest, a fixed-response remedy answering every transaction with 503 followed by the retry remedy, for attempts 1-3 and every interleaving of two sequences; distinct = reference states reached", len(cs))
	r.Assume("flows mode: retry condition implemented by a Filter(status_code_range 500-599) processor in front of Retry",
		"policy mode: the retry state may expire after cool-down+31 s; an early failure after such a gap is not flagged")
	if r.Parallel(t, 16) {
		r.Finish(t)
		return
	}
	for ci, c := range cs {
		if !r.Mine(ci) {
			continue
		}
		al := alphabet(c)
		depth := mc.Pick(r, c.Attempts+5, 2*c.Attempts+6)
		if c.Prefill > 0 {
			depth = mc.Pick(r, c.Attempts+2, c.Attempts+4)
		}
		st, tr := mc.BFS(r, mc.BFSOpts{Name: c.String(), NEvents: len(al), MaxDepth: depth,
			EvName: func(e int) string { return al[e].String() },
			Run: func(body func(mc.Model)) {
				synctest.Test(t, func(t *testing.T) {
					m := newModel(c)
					defer m.close()
					body(m)
					// let every timer-driven goroutine of the instance (cache sleepers, expiry
					// watchers) run out: virtual time stops once the bubble's root returns
					time.Sleep(3 * time.Hour)
					synctest.Wait()
				})
			}})
		r.Add("evaluations", int64(tr))
		r.NonTrivial(fmt.Sprintf("%s states=%d", c, st))
		r.Outcome(fmt.Sprintf("states=%d", st))
		r.Sample(map[string]any{"config": c.String(), "states": st, "transitions": tr})
	}
	if sh, n := r.Shard(); sh == 2%n {
		dispatchFamily(t, r)
	}
	r.Finish(t)
}
