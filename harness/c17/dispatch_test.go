package c17

// Dispatcher family (policy mode): a request remedy answers every transaction itself (fixed
// response 503) and a retry remedy whose conditions cover that status follows it, both run by
// the real runner.DispatchOnRequest.  Every retry of a logical call is a new transaction id
// of the same sequence id.  For attempts 1-3 and two interleaved sequences in every order of
// interleaving: a sequence is told to retry exactly `attempts` times, then no more.

import (
	"fmt"
	"strings"
	"testing"
	"testing/synctest"
	"time"

	"github.com/negasus/haproxy-spoe-go/action"

	"lunar/engine/config"
	lunarMessages "lunar/engine/messages"
	"lunar/engine/runner"
	"lunar/engine/services"
	"lunar/engine/services/remedies"
	sharedConfig "lunar/shared-model/config"
	"lunar/toolkit-core/clock"
	"verifharness/mc"
)

type dispatchReplay struct {
	Family   string `json:"family"`
	Attempts int    `json:"attempts"`
	Order    string `json:"order"`
}

func asksForRetry(acts action.Actions) bool {
	for _, a := range acts {
		if a.Name != "response_headers" {
			continue
		}
		if hs, ok := a.Value.(string); ok && strings.Contains(strings.ToLower(hs), remedies.LunarRetryAfterHeaderName) {
			return true
		}
	}
	return false
}

func dispatchCase(t *testing.T, attempts int, order string) (fail string) {
	synctest.Test(t, func(t *testing.T) {
		defer func() {
			// let the retry state's expiry sleepers run out before the bubble ends
			time.Sleep(time.Hour)
			synctest.Wait()
		}()
		tree, err := config.BuildEndpointPolicyTree([]sharedConfig.EndpointConfig{})
		if err != nil {
			panic(err)
		}
		pc := &sharedConfig.PoliciesConfig{Accounts: map[sharedConfig.AccountID]sharedConfig.Account{}, Global: sharedConfig.Global{
			Remedies: []sharedConfig.Remedy{
				{Name: "answer 503", Enabled: true, Config: sharedConfig.RemedyConfig{FixedResponse: &sharedConfig.FixedResponseConfig{StatusCode: 503}}},
				{Name: "retry 5xx", Enabled: true, Config: sharedConfig.RemedyConfig{Retry: &sharedConfig.RetryConfig{Attempts: attempts, InitialCooldownSeconds: 0, CooldownMultiplier: 1,
					Conditions: sharedConfig.RetryConfigConditions{StatusCode: []sharedConfig.Range[int]{{From: 500, To: 599}}}}}},
			}, Diagnosis: []sharedConfig.Diagnosis{}}}
		clk := clock.NewRealClock()
		svc := &services.PoliciesServices{Remedies: services.RemedyPlugins{FixedResponsePlugin: remedies.NewFixedResponsePlugin(clk), RetryPlugin: remedies.NewRetryPlugin(clk)}}
		worker := runner.NewDiagnosisWorker()
		n := map[byte]int{}     // transactions so far per sequence
		asked := map[byte]int{} // retry instructions so far per sequence
		over := map[byte]bool{}
		for i := 0; i < len(order); i++ {
			s := order[i]
			if over[s] {
				continue
			}
			n[s]++
			seq := "seq-" + string(s)
			id := seq
			if n[s] > 1 {
				id = fmt.Sprintf("%s-retry-%d", seq, n[s]-1)
			}
			acts, err := runner.DispatchOnRequest(lunarMessages.OnRequest{ID: id, SequenceID: seq, Method: "GET", Scheme: "https", URL: "h.com/orders", Path: "/orders",
				Headers: map[string]string{"host": "h.com", "early-response": "true"}, Time: time.Now()}, tree, pc, svc, worker)
			if err != nil {
				fail = "ERROR " + err.Error()
				return
			}
			if asksForRetry(acts) {
				asked[s]++
				if asked[s] > attempts {
					fail = fmt.Sprintf("TOO-MANY-RETRIES:dispatcher sequence %s (every transaction answered 503 by the gateway itself) was told to retry %d times, configured attempts %d", seq, asked[s], attempts)
					return
				}
			} else {
				if asked[s] < attempts {
					fail = fmt.Sprintf("EARLY-FAILURE:dispatcher sequence %s was reported failed after %d of %d retries", seq, asked[s], attempts)
					return
				}
				over[s] = true
			}
		}
	})
	return
}

func dispatchFamily(t *testing.T, r *mc.Run) {
	for attempts := 1; attempts <= 3; attempts++ {
		// every interleaving of attempts+2 transactions of X with attempts+2 of Y
		k := attempts + 2
		var rec func(cur []byte, x, y int)
		rec = func(cur []byte, x, y int) {
			if x == k && y == k {
				order := string(cur)
				fail := dispatchCase(t, attempts, order)
				r.Add("dispatcher_cases", 1)
				r.NonTrivial(fmt.Sprintf("dispatch|%d|%s", attempts, order))
				if fail != "" {
					r.Violation(strings.SplitN(fail, " ", 2)[0], fmt.Sprintf("policy-mode dispatcher, attempts=%d, transactions in the order %s: %s", attempts, order, fail), dispatchReplay{"dispatcher", attempts, order})
				}
				return
			}
			if x < k {
				rec(append(cur, 'X'), x+1, y)
			}
			if y < k {
				rec(append(cur, 'Y'), x, y+1)
			}
		}
		rec(nil, 0, 0)
	}
}
