// C08 — a configuration update is all-or-nothing.
// Engine: faultx — for every payload x endpoint case, a first run counts the file-system
// fault points passed by the real update path (os calls of config/gateway_file_system.go are
// routed through the verifrt/vos shim) and the admin-API calls; then every single fault
// point k is failed in turn, and the real HTTP handlers
// handleConfiguration / handleApplyFlows are driven in-process.  Oracle: a non-2xx answer
// leaves the directory tree byte-identical and the probe transactions' verdicts unchanged;
// a 2xx answer makes the probes match a fresh engine built from the files on disk.
package c08

import (
	"bytes"
	"context"
	"encoding/base64"
	"encoding/json"
	"fmt"
	"io"
	"net/http"
	"net/http/httptest"
	"os"
	"path/filepath"
	"regexp"
	"sort"
	"strings"
	"testing"
	"testing/synctest"
	"time"

	"lunar/engine/routing"
	"lunar/engine/streams"
	"lunar/engine/utils/environment"
	contextmanager "lunar/toolkit-core/context-manager"
	"lunar/toolkit-core/verifrt/vos"
	"verifharness/eng"
	"verifharness/mc"
)

func respFlow(name, url string, status int) string {
	return fmt.Sprintf(`name: %[1]s
filter:
  url: %[2]s
processors:
  F%[1]s:
    processor: Filter
    parameters:
      - key: header
        value: x-probe=1
  G%[1]s:
    processor: GenerateResponse
    parameters:
      - key: status
        value: %[3]d
flow:
  request:
    - from:
        stream:
          name: globalStream
          at: start
      to:
        processor:
          name: F%[1]s
    - from:
        processor:
          name: F%[1]s
          condition: hit
      to:
        processor:
          name: G%[1]s
    - from:
        processor:
          name: F%[1]s
          condition: miss
      to:
        stream:
          name: globalStream
          at: end
  response:
    - from:
        processor:
          name: G%[1]s
      to:
        stream:
          name: globalStream
          at: end
`, name, url, status)
}

func limiterFlow(name, url, quota string) string {
	return fmt.Sprintf(`name: %s
filter:
  url: %s
processors:
  L%s:
    processor: Limiter
    parameters:
      - key: quota_id
        value: %s
  G%s:
    processor: GenerateResponse
    parameters:
      - key: status
        value: 429
flow:
  request:
    - from:
        stream:
          name: globalStream
          at: start
      to:
        processor:
          name: L%s
    - from:
        processor:
          name: L%s
          condition: above_limit
      to:
        processor:
          name: G%s
    - from:
        processor:
          name: L%s
          condition: below_limit
      to:
        stream:
          name: globalStream
          at: end
  response:
    - from:
        processor:
          name: G%s
      to:
        stream:
          name: globalStream
          at: end
`, name, url, name, quota, name, name, name, name, name, name)
}

const metricsYAML = `general_metrics:
  label_value:
    - http_method
    - status_code
    - host
  metric_value:
    - name: api_call_count
      description: Number of API calls
system_metrics:
  - name: active_flows
    description: Number of active flows
  - name: flow_invocations
    description: Number of flow invocations
labeled_endpoints: []
`

const quotaQ = "quotas:\n  - id: Q\n    filter:\n      url: h.com/q/*\n    strategy:\n      fixed_window:\n        max: 100\n        interval: 60\n        interval_unit: second\n"

type payloadCase struct {
	Name    string
	Payload map[string]any
	// Valid: the update should be accepted when nothing fails
	Valid bool
}

func b64(s string) string { return base64.StdEncoding.EncodeToString([]byte(s)) }

func payloads() []payloadCase {
	return []payloadCase{
		{"adds-flow", map[string]any{"flows": map[string]string{"new.yaml": b64(respFlow("fnew", "h.com/new/*", 419))}}, true},
		{"changes-flow", map[string]any{"flows": map[string]string{"old.yaml": b64(respFlow("fold", "h.com/old/*", 420))}}, true},
		{"quota-and-flow", map[string]any{"flows": map[string]string{"ql.yaml": b64(limiterFlow("fq", "h.com/q/*", "Q"))}, "quotas": map[string]string{"q.yaml": b64(quotaQ)}}, true},
		{"invalid-base64", map[string]any{"flows": map[string]string{"new.yaml": "%%%not-base64%%%"}}, false},
		{"flow-fails-validation", map[string]any{"flows": map[string]string{"bad.yaml": b64("name: bad\nfilter:\n  url: h.com/bad/*\nprocessors:\n  X:\n    processor: NoSuchProcessor\nflow:\n  request:\n    - from:\n        stream:\n          name: globalStream\n          at: start\n      to:\n        processor:\n          name: X\n")}}, false},
		{"flow-with-unknown-quota", map[string]any{"flows": map[string]string{"uq.yaml": b64(limiterFlow("fuq", "h.com/uq/*", "NOPE"))}}, false},
		{"changes-flow-to-one-with-unknown-quota", map[string]any{"flows": map[string]string{"old.yaml": b64(limiterFlow("fold", "h.com/old/*", "NOPE"))}}, false},
		{"all-sections", map[string]any{"flows": map[string]string{"new.yaml": b64(respFlow("fnew", "h.com/new/*", 419))},
			"quotas": map[string]string{"q.yaml": b64(quotaQ)}, "path_params": map[string]string{"pp.yaml": b64("path_params:\n  - url: h.com/new/{id}\n")},
			"gateway_config": b64("allowed_domains: []\nblocked_domains: []\n"), "metrics": b64(metricsYAML + "# v2\n")}, true},
		{"all-sections-with-broken-flow", map[string]any{"flows": map[string]string{"old.yaml": b64("name: [unclosed\n")},
			"quotas": map[string]string{"q.yaml": b64(quotaQ)}, "path_params": map[string]string{"pp.yaml": b64("path_params:\n  - url: h.com/new/{id}\n")},
			"gateway_config": b64("allowed_domains: []\nblocked_domains: []\n"), "metrics": b64(metricsYAML + "# v2\n")}, false},
		{"path-params-only", map[string]any{"path_params": map[string]string{"pp.yaml": b64("path_params:\n  - url: h.com/new/{id}\n")}}, true},
		{"undecodable-path-params-with-flow", map[string]any{"flows": map[string]string{"new.yaml": b64(respFlow("fnew", "h.com/new/*", 419))}, "path_params": map[string]string{"pp.yaml": "###"}}, false},
		{"gateway-config-only", map[string]any{"gateway_config": b64("allowed_domains: []\nblocked_domains: []\n")}, true},
		{"undecodable-gateway-config-with-flow", map[string]any{"flows": map[string]string{"new.yaml": b64(respFlow("fnew", "h.com/new/*", 419))}, "gateway_config": "###"}, false},
		{"metrics-only", map[string]any{"metrics": b64(metricsYAML + "# v2\n")}, true},
		{"undecodable-metrics-with-flow", map[string]any{"flows": map[string]string{"new.yaml": b64(respFlow("fnew", "h.com/new/*", 419))}, "metrics": "###"}, false},
		{"undecodable-quota", map[string]any{"flows": map[string]string{"new.yaml": b64(respFlow("fnew", "h.com/new/*", 419))}, "quotas": map[string]string{"q.yaml": "###"}}, false},
		{"empty-flows-section", map[string]any{"flows": map[string]string{}}, true},
		{"changes-flow-to-unparsable", map[string]any{"flows": map[string]string{"old.yaml": b64("name: [unclosed\n")}}, false},
		{"changes-flow-and-adds-broken-one", map[string]any{"flows": map[string]string{"old.yaml": b64(respFlow("fold", "h.com/old/*", 420)), "zbad.yaml": b64("name: [unclosed\n")}}, false},
	}
}

// ---- admin API fake -------------------------------------------------------------------

type adminFake struct {
	calls  int
	failAt int // 1-based admin call that answers 500 (0 = none)
	log    []string
}

func (a *adminFake) RoundTrip(rq *http.Request) (*http.Response, error) {
	a.calls++
	if rq.Body != nil {
		io.Copy(io.Discard, rq.Body)
		rq.Body.Close()
	}
	a.log = append(a.log, rq.Method+" "+rq.URL.Path)
	st := 200
	if a.calls == a.failAt {
		st = 500
	}
	return &http.Response{StatusCode: st, Body: io.NopCloser(strings.NewReader("x")), Header: http.Header{}, Request: rq}, nil
}

// ---- one run ---------------------------------------------------------------------------

type runResult struct {
	Payload     map[string]any
	Endpoint    string
	Status      int
	Body        string
	TreeBefore  map[string]string
	TreeAfter   map[string]string
	ProbeBefore []string
	ProbeAfter  []string
	ProbeFresh  []string // verdicts of a fresh engine built from the files on disk afterwards
	FreshErr    string
	VosCalls    int64
	VosTrace    []string
	VosNames    []string
	AdminCalls  int
	AdminLog    []string
}

var probes = []string{"h.com/old/x", "h.com/new/x", "h.com/q/x", "h.com/uq/x", "h.com/bad/x", "h.com/none"}

func probe(s *streams.Stream, tag string) []string {
	var out []string
	for i, u := range probes {
		if s == nil {
			out = append(out, "NO-ENGINE")
			continue
		}
		v := func() (r string) {
			defer func() {
				if p := recover(); p != nil {
					r = fmt.Sprintf("PANIC(%v)", p)
				}
			}()
			return eng.OnRequest(s, eng.Req{ID: fmt.Sprintf("%s%d", tag, i), URL: u, Headers: map[string]string{"x-probe": "1"}}).String()
		}()
		out = append(out, u+"="+v)
	}
	return out
}

func tree(root string) map[string]string {
	m := map[string]string{}
	filepath.Walk(root, func(p string, info os.FileInfo, err error) error {
		if err != nil || info.IsDir() {
			return nil
		}
		rel, _ := filepath.Rel(root, p)
		if strings.HasPrefix(rel, "state/") {
			return nil
		}
		b, _ := os.ReadFile(p)
		m[rel] = string(b)
		return nil
	})
	return m
}

var rootN int

// initial selects the configuration on disk before the update: 0 = one flow, 1 = two flows,
// a quota file and a path-parameter file (so that updates start from a non-trivial state
// and /apply_flows has more to remove)
var initial int

func setupRoot() string {
	rootN++
	root := filepath.Join(mc.WorkDir(), fmt.Sprintf("c08-%d", rootN))
	for _, d := range []string{"flows", "quotas", "path_params", "state"} {
		os.MkdirAll(filepath.Join(root, d), 0o755)
	}
	os.WriteFile(filepath.Join(root, "flows", "old.yaml"), []byte(respFlow("fold", "h.com/old/*", 418)), 0o644)
	if initial == 1 {
		os.WriteFile(filepath.Join(root, "flows", "ql.yaml"), []byte(limiterFlow("fq", "h.com/q/*", "Q")), 0o644)
		os.WriteFile(filepath.Join(root, "quotas", "q.yaml"), []byte(quotaQ), 0o644)
		os.WriteFile(filepath.Join(root, "path_params", "pp.yaml"), []byte("path_params:\n  - url: h.com/old/{id}\n"), 0o644)
		// zero-byte files that belong to the configuration (placeholders)
		os.WriteFile(filepath.Join(root, "path_params", ".gitkeep"), nil, 0o644)
		os.WriteFile(filepath.Join(root, "flows", ".gitkeep"), nil, 0o644)
	}
	if initial != 2 {
		os.WriteFile(filepath.Join(root, "gateway_config.yaml"), []byte("allowed_domains: []\n"), 0o644)
		// the stock metrics.yaml without the two duration histograms (they start a ticker
		// goroutine that never ends, which a synctest bubble cannot contain)
		os.WriteFile(filepath.Join(root, "metrics.yaml"), []byte(metricsYAML), 0o644)
	}
	// (initial state 2: neither a gateway configuration file nor a user metrics file exists
	// yet; a payload may bring them)
	eng.Point(root, "")
	environment.SetGatewayConfigPath(filepath.Join(root, "gateway_config.yaml"))
	environment.SetMetricsConfigFilePath(filepath.Join(root, "metrics.yaml"))
	environment.SetDiscoveryStateLocation(filepath.Join(root, "state", "discovery.json"))
	// the image's built-in default metrics file (used when the user file is absent)
	os.WriteFile(filepath.Join(root, "default_metrics.yaml"), []byte(metricsYAML), 0o644)
	os.Setenv(environment.MetricsConfigFileDefaultPathEnvVar, filepath.Join(root, "default_metrics.yaml"))
	os.Setenv("LUNAR_FLOWS_PATH_PARAM_CONFIG", filepath.Join(root, "state", "known_endpoints.yaml"))
	return root
}

func runCase(t *testing.T, pc payloadCase, endpoint string, vosFail [2]int64, adminFail int) (rr runResult) {
	rr.Payload, rr.Endpoint = pc.Payload, endpoint
	mc.Bubble(t, func(t *testing.T) {
		ctx, cancel := context.WithCancel(context.Background())
		contextmanager.Get().WithContext(ctx)
		root := setupRoot()
		defer os.RemoveAll(root)
		admin := &adminFake{}
		http.DefaultClient.Transport = admin
		vos.Reset(0, 0)
		rd, err := routing.VerifNewHandlingDataManager()
		if err != nil {
			panic("manager did not start: " + err.Error())
		}
		if initial == 3 {
			// initial state 3: the gateway has already completed one update since it started
			pre, _ := json.Marshal(map[string]any{"flows": map[string]string{"old.yaml": b64(respFlow("fold", "h.com/old/*", 418)), "pre.yaml": b64(respFlow("fpre", "h.com/pre/*", 417))}})
			rec := httptest.NewRecorder()
			rq := httptest.NewRequest(http.MethodPut, "/"+endpoint, bytes.NewReader(pre))
			if endpoint == "configuration" {
				rd.VerifHandleConfiguration()(rec, rq)
			} else {
				rd.VerifHandleApplyFlows()(rec, rq)
			}
			if rec.Code != 200 {
				panic(fmt.Sprintf("the preparatory update was answered %d: %s", rec.Code, rec.Body.String()))
			}
		}
		if initial == 4 {
			// initial state 4: an update was refused (and rolled back), then the flows were
			// edited on the gateway itself and loaded with POST /load_flows - the supported
			// way of changing the configuration without the update endpoints
			bad, _ := json.Marshal(map[string]any{"flows": map[string]string{"old.yaml": b64("name: [unclosed\n")}})
			rec := httptest.NewRecorder()
			rq := httptest.NewRequest(http.MethodPut, "/"+endpoint, bytes.NewReader(bad))
			if endpoint == "configuration" {
				rd.VerifHandleConfiguration()(rec, rq)
			} else {
				rd.VerifHandleApplyFlows()(rec, rq)
			}
			if rec.Code == 200 {
				panic("the preparatory refused update was accepted")
			}
			os.WriteFile(filepath.Join(root, "flows", "ext.yaml"), []byte(respFlow("fext", "h.com/uq/*", 416)), 0o644)
			rec = httptest.NewRecorder()
			rd.VerifHandleFlowsLoading()(rec, httptest.NewRequest(http.MethodPost, "/load_flows", nil))
			if rec.Code != 200 {
				panic(fmt.Sprintf("POST /load_flows after an edit on disk was answered %d: %s", rec.Code, rec.Body.String()))
			}
		}
		rr.TreeBefore = tree(root)
		rr.ProbeBefore = probe(rd.VerifStream(), "b")
		body, _ := json.Marshal(pc.Payload)
		admin.calls, admin.failAt, admin.log = 0, adminFail, nil
		vos.Reset(vosFail[0], vosFail[1])
		rec := httptest.NewRecorder()
		rq := httptest.NewRequest(http.MethodPut, "/"+endpoint, bytes.NewReader(body))
		if endpoint == "configuration" {
			rd.VerifHandleConfiguration()(rec, rq)
		} else {
			rd.VerifHandleApplyFlows()(rec, rq)
		}
		rr.VosCalls, rr.VosTrace = vos.Calls(), append([]string{}, vos.Trace()...)
		rr.VosNames = append([]string{}, vos.Names...)
		vos.Reset(0, 0)
		rr.AdminCalls, rr.AdminLog = admin.calls, admin.log
		admin.failAt = 0
		rr.Status, rr.Body = rec.Code, strings.TrimSpace(rec.Body.String())
		rr.TreeAfter = tree(root)
		rr.ProbeAfter = probe(rd.VerifStream(), "a")
		// what a freshly started engine would do with the files now on disk
		fresh, ferr := streams.NewStream()
		if ferr == nil {
			ferr = fresh.Initialize()
		}
		if ferr != nil {
			rr.FreshErr = ferr.Error()
		} else {
			rr.ProbeFresh = probe(fresh, "f")
		}
		cancel()
		time.Sleep(2 * time.Hour)
		synctest.Wait()
	})
	return
}

func diffTrees(a, b map[string]string) string {
	var d []string
	for k, v := range a {
		if w, ok := b[k]; !ok {
			d = append(d, "removed "+k)
		} else if w != v {
			d = append(d, "changed "+k)
		}
	}
	for k := range b {
		if _, ok := a[k]; !ok {
			d = append(d, "added "+k)
		}
	}
	sort.Strings(d)
	return strings.Join(d, ", ")
}

// notStored: after an acknowledged update every file of the payload is on disk with the
// decoded content; under /apply_flows nothing else is left in the configuration sections.
func notStored(rr runResult) string {
	want := map[string]string{}
	dec := func(v string) string { b, _ := base64.StdEncoding.DecodeString(v); return string(b) }
	for sec, dir := range map[string]string{"flows": "flows", "quotas": "quotas", "path_params": "path_params"} {
		if m, ok := rr.Payload[sec].(map[string]string); ok {
			for name, v := range m {
				want[dir+"/"+name] = dec(v)
			}
		}
	}
	if v, ok := rr.Payload["gateway_config"].(string); ok {
		want["gateway_config.yaml"] = dec(v)
	}
	if v, ok := rr.Payload["metrics"].(string); ok {
		want["metrics.yaml"] = dec(v)
	}
	var d []string
	for k, v := range want {
		if got, ok := rr.TreeAfter[k]; !ok {
			d = append(d, "missing "+k)
		} else if got != v {
			d = append(d, "differs "+k)
		}
	}
	if rr.Endpoint == "apply_flows" {
		for k := range rr.TreeAfter {
			if _, ok := want[k]; !ok && k != "default_metrics.yaml" {
				d = append(d, "left over "+k)
			}
		}
	}
	sort.Strings(d)
	return strings.Join(d, ", ")
}

func same(a, b []string) bool { return strings.Join(a, "|") == strings.Join(b, "|") }

// oracle returns "" or (clause, explanation)
func oracle(rr runResult) (string, string) {
	ok := rr.Status >= 200 && rr.Status < 300
	for _, v := range rr.ProbeAfter {
		if strings.Contains(v, "PANIC") || v == "NO-ENGINE" {
			return "ENGINE-BROKEN", fmt.Sprintf("after the update (status %d) the serving engine is unusable: %v", rr.Status, rr.ProbeAfter)
		}
	}
	if !ok {
		if d := diffTrees(rr.TreeBefore, rr.TreeAfter); d != "" {
			return "DISK-NOT-RESTORED", fmt.Sprintf("the update was refused (status %d: %s) but the configuration files differ from before: %s", rr.Status, firstN(rr.Body, 160), d)
		}
		if !same(rr.ProbeBefore, rr.ProbeAfter) {
			return "BEHAVIOUR-CHANGED", fmt.Sprintf("the update was refused (status %d) but probe verdicts changed: before %v after %v", rr.Status, rr.ProbeBefore, rr.ProbeAfter)
		}
		return "", ""
	}
	if d := notStored(rr); d != "" {
		return "ACCEPTED-NOT-STORED", fmt.Sprintf("the update was acknowledged (status %d) but the configuration on disk is not the payload's: %s", rr.Status, d)
	}
	if rr.FreshErr != "" {
		return "ACCEPTED-UNLOADABLE", fmt.Sprintf("the update was acknowledged (status %d) but the files on disk do not load: %s", rr.Status, rr.FreshErr)
	}
	if !same(rr.ProbeAfter, rr.ProbeFresh) {
		return "ACCEPTED-NOT-APPLIED", fmt.Sprintf("the update was acknowledged (status %d) but the serving engine differs from the configuration on disk: serving %v, from disk %v", rr.Status, rr.ProbeAfter, rr.ProbeFresh)
	}
	return "", ""
}

// rollbackStart is the 1-based index of the first file-system call of the rollback in a
// fault-free run's trace (0 = the run had no rollback): Restore starts by re-reading the tree
// (Stat/Open) after the update has written files (Create/Write).
func rollbackStart(trace []string) int64 {
	wrote := false
	for i, op := range trace {
		switch op {
		case "Create", "Write", "OpenFile", "Rename", "CreateTemp":
			wrote = true
		case "Stat", "Open":
			if wrote {
				return int64(i + 1)
			}
		}
	}
	return 0
}

func names(pcs []payloadCase) string {
	var n []string
	for _, p := range pcs {
		n = append(n, p.Name)
	}
	return strings.Join(n, ", ")
}

func firstN(s string, n int) string {
	if len(s) > n {
		return s[:n] + "…"
	}
	return s
}

// ---- schedules: transactions arriving at every point of the switch --------------------

type schedState struct {
	rd      *routing.HandlingDataManager
	root    string
	cancel  context.CancelFunc
	before  []string
	during  [][]string
	status  int
	updated bool
}

func schedules(t *testing.T, r *mc.Run) {
	for _, o := range scenarios(t, r) {
		mc.Explore(t, r, o)
	}
}

func scenarios(t *testing.T, r *mc.Run) (out []*mc.SchedOpts) {
	pre := mc.Pick(r, 1, 2)
	pcs := payloads()
	// (the refused payload fails while the only flow file is parsed, so that the point at
	// which loading fails does not depend on Go's map iteration order)
	pick := map[string]bool{"changes-flow": true, "adds-flow": true, "changes-flow-to-unparsable": true}
	for _, pc := range pcs {
		if !pick[pc.Name] {
			continue
		}
		for _, ep := range []string{"configuration", "apply_flows"} {
			pc, ep := pc, ep
			// what the payload's configuration answers once it is fully applied (fault-free run)
			intended := runCase(t, pc, ep, [2]int64{}, 0).ProbeAfter
			add := func(name string, fault int64) {
				out = append(out, &mc.SchedOpts{Name: name, MaxPreempt: pre, MaxT: 0,
					MaxExecutions: int64(mc.Pick(r, 4000, 400000)),
					Body: func(x *mc.Exec) {
						st := &schedState{}
						x.Vals["st"] = st
						ctx, cancel := context.WithCancel(context.Background())
						st.cancel = cancel
						contextmanager.Get().WithContext(ctx)
						st.root = setupRoot()
						http.DefaultClient.Transport = &adminFake{}
						vos.Reset(0, 0)
						defer vos.Reset(fault, 0) // the plan starts with the update
						rd, err := routing.VerifNewHandlingDataManager()
						if err != nil {
							panic("manager did not start: " + err.Error())
						}
						st.rd = rd
						st.before = probe(rd.VerifStream(), "b")
						body, _ := json.Marshal(pc.Payload)
						x.Go("update", func() {
							rec := httptest.NewRecorder()
							rq := httptest.NewRequest(http.MethodPut, "/"+ep, bytes.NewReader(body))
							if ep == "configuration" {
								rd.VerifHandleConfiguration()(rec, rq)
							} else {
								rd.VerifHandleApplyFlows()(rec, rq)
							}
							st.status, st.updated = rec.Code, true
						})
						for _, name := range []string{"txn1", "txn2"} {
							name := name
							x.Go(name, func() {
								// exactly what routing.processRequest does: read the manager's
								// engine pointer and run the flow on it
								st.during = append(st.during, probe(rd.VerifStream(), name))
							})
						}
					},
					Check: func(x *mc.Exec) (string, string) {
						st := x.Vals["st"].(*schedState)
						if x.Horizon || !st.updated {
							return "", ""
						}
						after := probe(st.rd.VerifStream(), "a")
						x.Logf("status=%d before=%v during=%v after=%v", st.status, st.before, st.during, after)
						ok := st.status >= 200 && st.status < 300
						if !ok && !same(st.before, after) {
							return "BEHAVIOUR-CHANGED:" + ep + ":concurrent", fmt.Sprintf("refused update (status %d) changed probe verdicts: before %v after %v", st.status, st.before, after)
						}
						for _, d := range st.during {
							for i, v := range d {
								if v != st.before[i] && v != after[i] {
									if !ok && v == intended[i] {
										// a complete engine, but of the configuration that was then refused
										return "REFUSED-UPDATE-SERVED-TRAFFIC:" + ep, fmt.Sprintf("the update failed (status %d) after its engine had been published: a transaction arriving before the roll-back got %s, the refused configuration's verdict (before and after: %s)", st.status, v, st.before[i])
									}
									return "HALF-BUILT-ENGINE:" + ep, fmt.Sprintf("a transaction arriving during the update (status %d) got %s: neither the old configuration's verdict %s nor the new one's %s", st.status, v, st.before[i], after[i])
								}
							}
						}
						return "", ""
					},
					Teardown: func(x *mc.Exec) {
						vos.Reset(0, 0)
						st := x.Vals["st"].(*schedState)
						st.cancel()
						os.RemoveAll(st.root)
					}})
			}
			add("probe-during-"+pc.Name+"-via-"+ep, 0)
			if pc.Name != "changes-flow" || (!r.Thorough() && ep != "configuration") {
				continue
			}
			// the same update with one reload-step fault (a read of a configuration file by
			// the dry run or the real load, the write of the generated endpoints file)
			base := runCase(t, pc, ep, [2]int64{}, 0)
			for k, n := range base.VosNames {
				if !strings.HasPrefix(n, "ReadFile") && !strings.HasPrefix(n, "WriteFile") {
					continue
				}
				if strings.Contains(n, "/processors/registry/") {
					// a failed read of a built-in processor definition ends the load at a
					// point that depends on Go map order: the schedule tree would not be
					// replayable; these faults are covered by the fault enumeration only
					continue
				}
				add(fmt.Sprintf("probe-during-%s-via-%s-with-fault-at-fs#%d", pc.Name, ep, k+1), int64(k+1))
			}
		}
	}
	return
}

var objRe = regexp.MustCompile(`#\d+`)

// TestTraceStable (debug aid, VERIF_DEBUG=1): the default schedule of every scenario must
// produce the same sequence of scheduling points every time.
func TestTraceStable(t *testing.T) {
	if os.Getenv("VERIF_DEBUG") == "" {
		t.Skip()
	}
	r := mc.New("C08", "fault_enumeration")
	for _, o := range scenarios(t, r) {
		var first []string
		for i := 0; i < 25; i++ {
			x := mc.TraceOne(t, o, nil)
			if first == nil {
				first = x
				continue
			}
			for j := 0; j < len(first) || j < len(x); j++ {
				a, b := "", ""
				if j < len(first) {
					a = first[j]
				}
				if j < len(x) {
					b = x[j]
				}
				if objRe.ReplaceAllString(a, "") != objRe.ReplaceAllString(b, "") {
					fmt.Printf("%s run %d diverges at %d:\n  %s\n  %s\n", o.Name, i, j, a, b)
					lo := j - 6
					if lo < 0 {
						lo = 0
					}
					for k := lo; k < j; k++ {
						fmt.Printf("    common %d %s\n", k, first[k])
					}
					break
				}
			}
		}
	}
}

type replay struct {
	Initial   int      `json:"initial_state"`
	Payload   string   `json:"payload"`
	Endpoint  string   `json:"endpoint"`
	VosFail   [2]int64 `json:"vos_fail"`
	AdminFail int      `json:"admin_fail"`
	FaultAt   string   `json:"fault_at"`
}

func TestCheck(t *testing.T) {
	r := mc.New("C08", "fault_enumeration")
	pcs := payloads()
	if f := mc.ReplayFile(); f != "" {
		var rp replay
		if err := mc.LoadReplay(f, &rp); err != nil {
			t.Fatal(err)
		}
		for _, pc := range pcs {
			if pc.Name == rp.Payload {
				initial = rp.Initial
				rr := runCase(t, pc, rp.Endpoint, rp.VosFail, rp.AdminFail)
				k, w := oracle(rr)
				for i, n := range rr.VosNames {
					fmt.Printf("  fs#%d %s\n", i+1, strings.ReplaceAll(n, mc.WorkDir(), ""))
				}
				fmt.Printf("payload=%s endpoint=%s vos_fail=%v admin_fail=%d -> status %d body %s\nvos trace %v\nadmin %v\nbefore %v\nafter  %v\nfresh  %v %s\ntree diff: %s\noracle: %s %s\n",
					pc.Name, rp.Endpoint, rp.VosFail, rp.AdminFail, rr.Status, firstN(rr.Body, 200), rr.VosTrace, rr.AdminLog, rr.ProbeBefore, rr.ProbeAfter, rr.ProbeFresh, rr.FreshErr, diffTrees(rr.TreeBefore, rr.TreeAfter), k, w)
				if k != "" {
					t.Fail()
				}
			}
		}
		return
	}
	r.Rule = "initial states {one flow; two flows + quota + path params; no gateway-configuration / user-metrics file yet (payloads bringing one); one update already completed; one update refused and rolled back, then a flow file edited on disk and loaded with POST /load_flows} x payloads {" + names(pcs) + "} x endpoints {/configuration, /apply_flows} x {no fault, every single file-system fault point k of the whole handler run (backup, clean-up, save, rollback), every single admin-API call answering 500}; plus schedules: 2 probe transactions x one update (3 payloads x 2 endpoints), all interleavings at sync operations with <= 1 (thorough 2) preemptions; non-trivial = runs in which a fault was injected or the payload is refused; distinct = (payload, endpoint, fault)"
	r.Assume("file-system faults are injected at the os calls of config/gateway_file_system.go (Remove, MkdirAll, Create, Write (partial), Open, Stat); a failed Write leaves half of the content behind",
		"HAProxy admin API = in-process RoundTripper; virtual time", "probe transactions: "+strings.Join(probes, ", "))
	if r.Parallel(t, 16) {
		r.Finish(t)
		return
	}
	idx := 0
	for initial = 0; initial <= 4; initial++ {
		for _, pc := range pcs {
			if initial == 2 {
				// only payloads that bring one of the two single files are of interest here
				_, gw := pc.Payload["gateway_config"]
				_, me := pc.Payload["metrics"]
				if !gw && !me {
					continue
				}
			}
			for _, ep := range []string{"configuration", "apply_flows"} {
				base := runCase(t, pc, ep, [2]int64{}, 0)
				type fault struct {
					vos   [2]int64
					admin int
					label string
				}
				faults := []fault{{label: "none"}}
				for k := int64(1); k <= base.VosCalls; k++ {
					if !r.Thorough() && strings.Contains(base.VosNames[k-1], "/processors/registry/") {
						// reads of the built-in processor definitions: thorough tier only
						continue
					}
					faults = append(faults, fault{vos: [2]int64{k, 0}, label: fmt.Sprintf("fs#%d:%s", k, base.VosTrace[k-1])})
				}
				for j := 1; j <= base.AdminCalls; j++ {
					faults = append(faults, fault{admin: j, label: fmt.Sprintf("admin#%d:%s", j, base.AdminLog[j-1])})
				}
				for _, f := range faults {
					idx++
					if !r.Mine(idx) {
						continue
					}
					rr := runCase(t, pc, ep, f.vos, f.admin)
					r.Add("evaluations", 1)
					clause, what := oracle(rr)
					r.Outcome(fmt.Sprintf("%s status=%d", ep, rr.Status))
					if f.label != "none" || !pc.Valid {
						r.NonTrivial(fmt.Sprintf("%d|%s|%s|%s", initial, pc.Name, ep, f.label))
					}
					if idx%37 == 5 {
						r.Sample(map[string]any{"payload": pc.Name, "endpoint": ep, "fault": f.label, "status": rr.Status, "fault_points_fs": base.VosCalls, "fault_points_admin": base.AdminCalls})
					}
					if clause != "" {
						kind := "no-fault"
						if f.vos[0] > 0 {
							kind = "fs-fault"
							if rb := rollbackStart(base.VosTrace); rb > 0 && f.vos[0] >= rb {
								// the payload is refused anyway and the injected fault hits the
								// rollback (Restore) itself
								kind = "fs-fault-during-rollback"
							}
						} else if f.admin > 0 {
							kind = "admin-fault"
						}
						r.Violation(fmt.Sprintf("%s:%s:%s", clause, ep, kind), fmt.Sprintf("initial=%d payload=%s endpoint=/%s fault=%s: %s", initial, pc.Name, ep, f.label, what),
							replay{initial, pc.Name, ep, f.vos, f.admin, f.label})
					}
				}
			}
		}
	}
	initial = 0
	schedules(t, r)
	r.Finish(t)
}
