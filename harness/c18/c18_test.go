// C18 — concurrent transactions do not corrupt or share engine state.
// Engine: schedx + race oracle.  The harness is built with -race; the controlled scheduler's
// own hand-offs are hidden from the race detector (runtime.RaceDisable around them), so two
// goroutines that the controller fully serialises are still reported as racing iff the
// PROGRAM's synchronisation does not order their conflicting accesses.  Every schedule
// within the preemption bound is explored, which makes the happens-before race check
// exhaustive within that bound instead of a sample.  Second oracle: serialisability of the
// per-transaction verdicts.
package c18

import (
	"bufio"
	"context"
	"fmt"
	"io"
	"lunar/toolkit-core/clock"
	"lunar/toolkit-core/vacuum"
	"lunar/toolkit-core/verifrt/vsync"
	"net/http"
	"os"
	"path/filepath"
	"regexp"
	"sort"
	"strings"
	"testing"
	"testing/synctest"
	"time"

	"lunar/engine/config"
	"lunar/engine/streams"
	sharedConfig "lunar/shared-model/config"
	"lunar/toolkit-core/configuration"
	contextmanager "lunar/toolkit-core/context-manager"
	"verifharness/eng"
	"verifharness/mc"
)

// ---- engine configurations -----------------------------------------------------------

const limiterFlow = `name: f
filter:
  url: h.com/*
processors:
  L:
    processor: Limiter
    parameters:
      - key: quota_id
        value: Q
  G:
    processor: GenerateResponse
    parameters:
      - key: status
        value: 429
flow:
  request:
    - from:
        stream:
          name: globalStream
          at: start
      to:
        processor:
          name: L
    - from:
        processor:
          name: L
          condition: above_limit
      to:
        processor:
          name: G
    - from:
        processor:
          name: L
          condition: below_limit
      to:
        stream:
          name: globalStream
          at: end
  response:
    - from:
        processor:
          name: G
      to:
        stream:
          name: globalStream
          at: end
    - from:
        stream:
          name: globalStream
          at: start
      to:
        stream:
          name: globalStream
          at: end
`

func fixedQuota(max int) string {
	return fmt.Sprintf("quotas:\n  - id: Q\n    filter:\n      url: h.com/*\n    strategy:\n      fixed_window:\n        max: %d\n        interval: 10\n        interval_unit: second\n", max)
}

func concurrentQuota(max int) string {
	return fmt.Sprintf("quotas:\n  - id: Q\n    filter:\n      url: h.com/*\n    strategy:\n      concurrent:\n        max_request_count: %d\n        request_expiration_sec: 1\n        gc_interval_sec: 1\n", max)
}

type okTransport struct{}

func (okTransport) RoundTrip(rq *http.Request) (*http.Response, error) {
	if rq.Body != nil {
		io.Copy(io.Discard, rq.Body)
		rq.Body.Close()
	}
	return &http.Response{StatusCode: 200, Body: io.NopCloser(strings.NewReader("OK")), Header: http.Header{}, Request: rq}, nil
}

// ---- scenarios ---------------------------------------------------------------------

type txn struct {
	Name string
	Run  func(s *streams.Stream) string // returns the transaction's observable verdict
}

type scenario struct {
	Name  string
	Files eng.Files
	// Pre runs sequentially before the concurrent part (e.g. admit a holder)
	Pre  func(s *streams.Stream)
	Txns []txn
	// Others: concurrent non-transaction activities (metrics observation, ...)
	Others map[string]func(s *streams.Stream)
	MaxT   int
	// WithCtxProc: the engine is loaded with the harness processor VerifCtx available
	WithCtxProc bool
	// Extra is a further oracle on the transactions' verdicts
	Extra func(res []string) (string, string)
	Focus []string
}

func (sc scenario) load() (*streams.Stream, error) {
	dir := ""
	if sc.WithCtxProc {
		dir = installCtxProc()
	}
	s, _, err := eng.NewStreamP(sc.Files, dir)
	return s, err
}

func req(id string) func(s *streams.Stream) string {
	return func(s *streams.Stream) string { return eng.OnRequest(s, eng.Req{ID: id, URL: "h.com/a"}).String() }
}

func resp(id string) func(s *streams.Stream) string {
	return func(s *streams.Stream) string {
		return eng.OnResponse(s, eng.Resp{ID: id, URL: "h.com/a", Status: 200}).String()
	}
}

func scenarios() []scenario {
	fw := eng.Files{Flows: map[string]string{"f.yaml": limiterFlow}, Quotas: map[string]string{"q.yaml": fixedQuota(1)}}
	cc := eng.Files{Flows: map[string]string{"f.yaml": limiterFlow}, Quotas: map[string]string{"q.yaml": concurrentQuota(1)}}
	return []scenario{
		{Name: "two-requests-one-flow", Files: fw, Txns: []txn{{"T1", req("t1")}, {"T2", req("t2")}}},
		{Name: "request-vs-response", Files: cc, Pre: func(s *streams.Stream) { eng.OnRequest(s, eng.Req{ID: "h", URL: "h.com/a"}) },
			Txns: []txn{{"T1", req("t1")}, {"R", resp("h")}}},
		{Name: "request-vs-quota-metrics", Files: fw, Txns: []txn{{"T1", req("t1")}},
			Others: map[string]func(s *streams.Stream){"metrics": func(s *streams.Stream) { streams.VerifObserveQuotas(s) }}},
		{Name: "response-vs-quota-gc", Files: cc, Pre: func(s *streams.Stream) { eng.OnRequest(s, eng.Req{ID: "h", URL: "h.com/a"}) },
			Txns: []txn{{"R", func(s *streams.Stream) string { time.Sleep(1100 * time.Millisecond); return resp("h")(s) }}}, MaxT: 14},
	}
}

func build(sc scenario) *mc.SchedOpts {
	focus := []string{"lunar/engine/streams", "lunar/toolkit-core/vacuum", "lunar/engine/config"}
	if sc.Focus != nil {
		focus = sc.Focus
	}
	return &mc.SchedOpts{Name: sc.Name, MaxT: sc.MaxT, Quantum: 100 * time.Millisecond,
		Focus: focus,
		Body: func(x *mc.Exec) {
			ctx, cancel := context.WithCancel(context.Background())
			contextmanager.Get().WithContext(ctx)
			x.Vals["cancel"] = cancel
			s, err := sc.load()
			if err != nil {
				panic("engine did not load: " + err.Error())
			}
			if sc.Pre != nil {
				sc.Pre(s)
			}
			res := make([]string, len(sc.Txns))
			x.Vals["res"] = res
			for i, tx := range sc.Txns {
				x.Go(tx.Name, func() { res[i] = tx.Run(s); x.Logf("%s -> %s", tx.Name, res[i]) })
			}
			names := make([]string, 0, len(sc.Others))
			for n := range sc.Others {
				names = append(names, n)
			}
			sort.Strings(names)
			for _, n := range names {
				f := sc.Others[n]
				x.Go(n, func() { f(s) })
			}
		},
		Teardown: func(x *mc.Exec) { x.Vals["cancel"].(context.CancelFunc)() },
		Check: func(x *mc.Exec) (string, string) {
			if x.Horizon {
				return "", ""
			}
			got := append([]string{}, x.Vals["res"].([]string)...)
			if sc.Extra != nil {
				if k, w := sc.Extra(got); k != "" {
					return k, w
				}
			}
			sort.Strings(got)
			key := strings.Join(got, " | ")
			if !serialOutcomes(sc)[key] {
				var all []string
				for k := range serialOutcomes(sc) {
					all = append(all, "{"+k+"}")
				}
				sort.Strings(all)
				return "NOT-SERIALISABLE", fmt.Sprintf("verdicts {%s} are not those of any one-at-a-time order %v", key, all)
			}
			return "", ""
		}}
}

var serialCache = map[string]map[string]bool{}

// serialOutcomes runs every permutation of the transactions one at a time on a fresh engine.
func serialOutcomes(sc scenario) map[string]bool {
	if m, ok := serialCache[sc.Name]; ok {
		return m
	}
	panic("serial outcomes for " + sc.Name + " were not precomputed")
}

func computeSerial(t *testing.T, sc scenario) {
	m := map[string]bool{}
	mc.Permutations(len(sc.Txns), func(p []int) bool {
		mc.Bubble(t, func(t *testing.T) {
			ctx, cancel := context.WithCancel(context.Background())
			contextmanager.Get().WithContext(ctx)
			s, err := sc.load()
			if err != nil {
				panic(err)
			}
			if sc.Pre != nil {
				sc.Pre(s)
			}
			res := make([]string, len(sc.Txns))
			for _, i := range p {
				res[i] = sc.Txns[i].Run(s)
			}
			sort.Strings(res)
			m[strings.Join(res, " | ")] = true
			cancel()
			time.Sleep(time.Hour)
			synctest.Wait()
		})
		return true
	})
	serialCache[sc.Name] = m
}

// ---- policy-mode scenario (accessor) ------------------------------------------------

func policiesYAML(k int) string {
	return fmt.Sprintf("global:\n  remedies: []\n  diagnosis: []\nendpoints:\n  - url: h.com/v%d\n    method: GET\n    remedies:\n      - name: fixed\n        enabled: true\n        config:\n          fixed_response:\n            status_code: 418\n    diagnosis: []\n", k)
}

func accessorScenario() *mc.SchedOpts {
	return &mc.SchedOpts{Name: "policy-lookup-vs-reload-vs-vacuum", MaxT: 3, Quantum: 5 * time.Second,
		Focus: []string{"lunar/engine/config", "lunar/toolkit-core/vacuum"},
		Body: func(x *mc.Exec) {
			dir := filepath.Join(mc.WorkDir(), "c18-acc")
			os.MkdirAll(dir, 0o755)
			os.Setenv("LUNAR_PROXY_CONFIG_DIR", dir)
			os.Setenv("LUNAR_PROXY_POLICIES_CONFIG", filepath.Join(dir, "policies.yaml"))
			http.DefaultClient.Transport = okTransport{}
			os.WriteFile(filepath.Join(dir, "policies.yaml"), []byte(policiesYAML(1)), 0o644)
			br, err := config.BuildInitialFromFile()
			if err != nil {
				panic(err)
			}
			acc := br.Accessor
			x.Vals["acc"] = acc
			res, _ := configuration.UnmarshalPolicyRawData[sharedConfig.PoliciesConfig]([]byte(policiesYAML(2)))
			pd, _ := config.BuildPolicyData(res.UnmarshaledData, false)
			// a first transaction + reload sequentially, so that vacuum entries exist and the loops run
			acc.GetTxnPoliciesData("t0")
			x.Go("T1", func() {
				a := acc.GetTxnPoliciesData("t1")
				b := acc.GetTxnPoliciesData("t1")
				x.Logf("T1 same=%v", a == b)
				if a != b {
					x.Fail("VERSION-CHANGED:concurrent", "a transaction saw two policy versions")
				}
			})
			x.Go("reload", func() { _ = acc.UpdatePoliciesData(pd, false) })
		},
		Teardown: func(x *mc.Exec) { config.VerifStopVacuums(x.Vals["acc"].(*config.TxnPoliciesAccessor)) },
	}
}

// vacuumScenario: the background vacuum pass of a MapVacuum (ttl 2 s, tick 1 s) racing the
// registration of a new key, at the component level.  In every one-at-a-time order each
// registered key is removed from the map within ttl + 2 ticks; a key that is still there long
// after that was lost by the vacuum's bookkeeping.
func vacuumScenario() *mc.SchedOpts {
	type st struct {
		m  map[string]int
		mu *vsync.RWMutex
		v  *vacuum.MapVacuum[string, int]
	}
	return &mc.SchedOpts{Name: "vacuum-pass-vs-new-key", MaxT: 10, Quantum: time.Second, IdleAfterDone: 6,
		Focus: []string{"lunar/toolkit-core/vacuum"},
		Body: func(x *mc.Exec) {
			s := &st{m: map[string]int{}, mu: &vsync.RWMutex{}}
			v := vacuum.NewMapVacuum[string, int]("verif", clock.NewRealClock(), 2*time.Second, time.Second, s.m, s.mu)
			s.v = &v
			x.Vals["st"] = s
			put := func(k string) {
				s.mu.Lock()
				s.m[k] = 1
				s.mu.Unlock()
				s.v.VacuumKey(k)
			}
			put("a") // starts the background loop
			x.Go("W", func() {
				time.Sleep(2500 * time.Millisecond) // "a" is due; the pass at 3 s removes it
				x.Yield("woke")
				put("b")
				time.Sleep(500 * time.Millisecond)
				x.Yield("woke")
				put("c")
			})
		},
		Check: func(x *mc.Exec) (string, string) {
			s := x.Vals["st"].(*st)
			if x.Horizon {
				return "", ""
			}
			s.mu.RLock()
			var left []string
			for k := range s.m {
				left = append(left, k)
			}
			s.mu.RUnlock()
			sort.Strings(left)
			x.Logf("left=%v at %v", left, x.Now())
			if len(left) > 0 && x.Now() >= 9*time.Second {
				return "VACUUM-LOST-KEY", fmt.Sprintf("keys %v are still in the map at %v, long after their time-to-live (2 s) and several vacuum passes: the vacuum lost them", left, x.Now())
			}
			return "", ""
		},
		Teardown: func(x *mc.Exec) { x.Vals["st"].(*st).v.VerifStop() },
	}
}

// ---- race report parsing -----------------------------------------------------------

var frameRe = regexp.MustCompile(`^  (\S.*)\(\)$`)

type raceReport struct {
	key  string
	text string
}

func parseRaceLogs(dir string) []raceReport {
	var out []raceReport
	files, _ := filepath.Glob(filepath.Join(dir, "race.*"))
	for _, f := range files {
		fh, err := os.Open(f)
		if err != nil {
			continue
		}
		sc := bufio.NewScanner(fh)
		sc.Buffer(make([]byte, 1<<20), 1<<22)
		var block []string
		flush := func() {
			if len(block) == 0 {
				return
			}
			if k := classify(block); k != "" {
				out = append(out, raceReport{k, strings.Join(block, "\n")})
			}
			block = nil
		}
		in := false
		for sc.Scan() {
			l := sc.Text()
			if strings.HasPrefix(l, "WARNING: DATA RACE") {
				flush()
				in = true
			}
			if strings.HasPrefix(l, "==================") && in && len(block) > 0 {
				flush()
				in = false
				continue
			}
			if in {
				block = append(block, l)
			}
		}
		flush()
		fh.Close()
	}
	return out
}

// classify returns "race:<funcA>|<funcB>" for a report whose two conflicting accesses both
// happen in repository code, "" for reports that involve harness / runtime frames first.
func classify(block []string) string {
	var tops []string
	section := false
	found := false
	for _, l := range block {
		if strings.HasPrefix(l, "Write at") || strings.HasPrefix(l, "Read at") || strings.HasPrefix(l, "Previous write at") || strings.HasPrefix(l, "Previous read at") ||
			strings.HasPrefix(l, "Atomic") || strings.HasPrefix(l, "Previous atomic") {
			section, found = true, false
			continue
		}
		if strings.HasPrefix(l, "Goroutine ") || strings.HasPrefix(l, "Location") || strings.HasPrefix(l, "Mutex") {
			section = false
			continue
		}
		if !section || found {
			continue
		}
		m := frameRe.FindStringSubmatch(l)
		if m == nil {
			continue
		}
		fn := m[1]
		if strings.HasPrefix(fn, "runtime.") || strings.HasPrefix(fn, "sync.") || strings.HasPrefix(fn, "sync/atomic.") || strings.HasPrefix(fn, "internal/") ||
			strings.HasPrefix(fn, "lunar/toolkit-core/verifrt") {
			continue // skip runtime / shim frames: the caller is what matters
		}
		found = true
		fn = regexp.MustCompile(`\.func\d+(\.\d+)*$`).ReplaceAllString(fn, "")
		fn = regexp.MustCompile(`\[[^\]]*\]`).ReplaceAllString(fn, "")
		tops = append(tops, fn)
	}
	if len(tops) < 2 {
		return ""
	}
	a, b := tops[0], tops[1]
	if !strings.HasPrefix(a, "lunar/") || !strings.HasPrefix(b, "lunar/") {
		return "" // an access made by harness code (reading results, dumps): not a finding about the repository
	}
	if a > b {
		a, b = b, a
	}
	return "race:" + a + "|" + b
}

func TestCheck(t *testing.T) {
	r := mc.New("C18", "exploration")
	if f := mc.ReplayFile(); f != "" {
		fmt.Println("C18 findings are race reports (function pairs) or schedules; see the 'what'/'replay' members of", f)
		return
	}
	pre := mc.Pick(r, 2, 3)
	raceDir := filepath.Join(mc.VerifDir, ".work", fmt.Sprintf("c18-race-%d", os.Getpid()))
	if !r.IsWorker() {
		os.MkdirAll(raceDir, 0o755)
		os.Setenv("GORACE", "log_path="+filepath.Join(raceDir, "race")+" halt_on_error=0 exitcode=0 history_size=3")
		os.Setenv("VERIF_C18_RACEDIR", raceDir)
		defer os.RemoveAll(raceDir)
	}
	var names []string
	for _, sc := range scenarios() {
		names = append(names, sc.Name)
	}
	for _, sc := range moreScenarios() {
		names = append(names, sc.Name)
	}
	names = append(names, "policy-lookup-vs-reload-vs-vacuum", "vacuum-pass-vs-new-key", "message-handler-vs-apply-flows")
	r.Rule = fmt.Sprintf("all schedules (<=%d preemptions) of scenarios %s on a real engine / accessor, built with -race with the scheduler's hand-offs hidden from the detector; a violation is a happens-before race between two repository functions in any explored schedule, or a set of verdicts that no one-at-a-time order produces; distinct = observation logs", pre, strings.Join(names, ","))
	r.Assume("Go race detector as per-schedule happens-before oracle; reports whose conflicting access is in harness code are ignored",
		"scheduling decisions at sync operations of lunar/engine/streams, lunar/engine/config, toolkit-core/vacuum (queue scenario: the Queue processor, its shared queue and the quota; reload scenario: lunar/engine/routing, the Stream, its metrics data and lunar/engine/metrics)")
	if r.Parallel(t, 16) {
		for _, rep := range parseRaceLogs(raceDir) {
			r.Violation(rep.key, "data race between repository functions: "+strings.ReplaceAll(rep.key[5:], "|", "  <->  "), map[string]any{"report": rep.text})
		}
		r.Add("race_reports_parsed", int64(len(parseRaceLogs(raceDir))))
		r.Finish(t)
		return
	}
	for _, sc := range append(scenarios(), moreScenarios()...) {
		computeSerial(t, sc)
		o := build(sc)
		o.MaxPreempt = pre
		o.MaxExecutions = int64(mc.Pick(r, 6000, 100000))
		mc.Explore(t, r, o)
	}
	o := accessorScenario()
	o.MaxPreempt = pre
	o.MaxExecutions = int64(mc.Pick(r, 6000, 100000))
	mc.Explore(t, r, o)
	o = vacuumScenario()
	o.MaxPreempt = pre
	o.MaxExecutions = int64(mc.Pick(r, 6000, 100000))
	mc.Explore(t, r, o)
	o = handlerVsReload()
	o.MaxPreempt = pre
	o.MaxExecutions = int64(mc.Pick(r, 6000, 100000))
	mc.Explore(t, r, o)
	o = unparsableHeaders()
	o.MaxPreempt = pre
	o.MaxExecutions = int64(mc.Pick(r, 6000, 100000))
	mc.Explore(t, r, o)
	r.Finish(t)
}
