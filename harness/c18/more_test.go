package c18

// Further C18 scenarios: per-transaction context of a flow shared by two running transactions,
// three transactions on one quota, transactions racing the Queue processor's background
// loop, and the SPOE message handler racing a flows reload (/apply_flows) of the manager.

import (
	"bytes"
	"context"
	"encoding/base64"
	"encoding/json"
	"fmt"
	"net/http"
	"net/http/httptest"
	"os"
	"path/filepath"
	"sort"
	"strings"
	"sync"
	"time"

	"github.com/negasus/haproxy-spoe-go/action"
	"github.com/negasus/haproxy-spoe-go/message"
	"github.com/negasus/haproxy-spoe-go/payload/kv"

	"lunar/engine/actions"
	"lunar/engine/routing"
	"lunar/engine/streams"
	"lunar/engine/streams/processors"
	publictypes "lunar/engine/streams/public-types"
	streamtypes "lunar/engine/streams/types"
	"lunar/engine/utils/environment"
	contextmanager "lunar/toolkit-core/context-manager"
	"verifharness/eng"
	"verifharness/mc"
)

// ---- a processor that keeps per-transaction state in the flow's transactional context ------

// ctxProc is a client of the engine's context API, the way a shipped processor would be: the
// instance whose key starts with "W" stores the id of the transaction it is executed for in
// the transactional context; the instance whose key starts with "R" reads it back and answers
// the request with a status that tells what it found.
type ctxProc struct{ name string }

const (
	ctxOwn     = 211 // the value this transaction stored
	ctxOther   = 212 // a value stored by another transaction
	ctxNone    = 213 // no transactional context at all
	ctxMissing = 214 // a transactional context without this transaction's value
)

func (p *ctxProc) GetName() string { return p.name }
func (p *ctxProc) GetRequirement() *streamtypes.ProcessorRequirement {
	return &streamtypes.ProcessorRequirement{}
}

func ctxAnswer(p *ctxProc, status int) (streamtypes.ProcessorIO, error) {
	return streamtypes.ProcessorIO{Type: publictypes.StreamTypeResponse, Name: "",
		ReqAction: &actions.EarlyResponseAction{Status: status, Body: p.name}}, nil
}

func (p *ctxProc) Execute(_ string, a publictypes.APIStreamI) (streamtypes.ProcessorIO, error) {
	if a.GetType().IsResponseType() {
		return streamtypes.ProcessorIO{Type: publictypes.StreamTypeAny, RespAction: &actions.NoOpAction{}}, nil
	}
	ctx := a.GetContext().GetTransactionalContext()
	if ctx == nil {
		return ctxAnswer(p, ctxNone)
	}
	if strings.HasPrefix(p.name, "W") {
		if err := ctx.Set("owner", a.GetID()); err != nil {
			return ctxAnswer(p, ctxMissing)
		}
		return streamtypes.ProcessorIO{Type: publictypes.StreamTypeAny, ReqAction: &actions.NoOpAction{}}, nil
	}
	v, err := ctx.Get("owner")
	switch {
	case err != nil:
		return ctxAnswer(p, ctxMissing)
	case v != a.GetID():
		return ctxAnswer(p, ctxOther)
	}
	return ctxAnswer(p, ctxOwn)
}

const ctxProcYAML = `name: VerifCtx
description: harness processor keeping per-transaction state in the transactional context
exec: verif_ctx.go
parameters:
  note:
    type: string
    description: unused
    default: ""
    required: false
output_streams:
  - type: StreamTypeAny
input_stream:
  type: StreamTypeAny
`

var ctxProcDir string

// installCtxProc registers VerifCtx and returns a processors directory holding the registry's
// definitions plus its own.
func installCtxProc() string {
	processors.VerifInstall(map[string]processors.ProcessorFactory{
		"VerifCtx": func(md *streamtypes.ProcessorMetaData) (streamtypes.ProcessorI, error) {
			return &ctxProc{name: md.Name}, nil
		},
	}, nil)
	if ctxProcDir != "" {
		return ctxProcDir
	}
	d, err := os.MkdirTemp(mc.WorkDir(), "c18-procs-")
	if err != nil {
		panic(err)
	}
	ents, err := os.ReadDir(eng.RegistryDir)
	if err != nil {
		panic(err)
	}
	for _, e := range ents {
		if strings.HasSuffix(e.Name(), ".yaml") {
			b, _ := os.ReadFile(filepath.Join(eng.RegistryDir, e.Name()))
			os.WriteFile(filepath.Join(d, e.Name()), b, 0o644)
		}
	}
	os.WriteFile(filepath.Join(d, "verif_ctx.yaml"), []byte(ctxProcYAML), 0o644)
	ctxProcDir = d
	return d
}

const ctxFlow = `name: cflow
filter:
  url: h.com/*
processors:
  W:
    processor: VerifCtx
  R:
    processor: VerifCtx
flow:
  request:
    - from:
        stream:
          name: globalStream
          at: start
      to:
        processor:
          name: W
    - from:
        processor:
          name: W
      to:
        processor:
          name: R
  response:
    - from:
        processor:
          name: R
      to:
        stream:
          name: globalStream
          at: end
    - from:
        stream:
          name: globalStream
          at: start
      to:
        stream:
          name: globalStream
          at: end
`

func ctxOracle(res []string) (string, string) {
	for _, v := range res {
		switch {
		case strings.Contains(v, fmt.Sprintf("early(%d)", ctxOther)):
			return "TXN-CONTEXT:overwritten-by-other-transaction", fmt.Sprintf("a processor read back the per-transaction value another transaction had stored: verdicts %v (%d = own value, %d = another transaction's, %d = no transactional context, %d = value gone)", res, ctxOwn, ctxOther, ctxNone, ctxMissing)
		case strings.Contains(v, fmt.Sprintf("early(%d)", ctxNone)), strings.Contains(v, fmt.Sprintf("early(%d)", ctxMissing)):
			return "TXN-CONTEXT:cleared-while-in-use", fmt.Sprintf("the per-transaction state of a running transaction was cleared: verdicts %v (%d = own value, %d = another transaction's, %d = no transactional context, %d = value gone)", res, ctxOwn, ctxOther, ctxNone, ctxMissing)
		}
	}
	return "", ""
}

// ---- Queue processor ---------------------------------------------------------------------

const queueFlow = `name: qflow
filter:
  url: h.com/*
processors:
  Qu:
    processor: Queue
    parameters:
      - key: quota_id
        value: Q
      - key: queue_size
        value: 2
      - key: ttl_seconds
        value: 2
      - key: priority_group_by_header
        value: x-prio
      - key: priority_groups
        value:
          hi: 1
          lo: 2
  G:
    processor: GenerateResponse
    parameters:
      - key: status
        value: 429
flow:
  request:
    - from:
        stream:
          name: globalStream
          at: start
      to:
        processor:
          name: Qu
    - from:
        processor:
          name: Qu
          condition: blocked
      to:
        processor:
          name: G
    - from:
        processor:
          name: Qu
          condition: allowed
      to:
        stream:
          name: globalStream
          at: end
  response:
    - from:
        processor:
          name: G
      to:
        stream:
          name: globalStream
          at: end
`

// flowOn: Filter(header hdr=1) -> hit: GenerateResponse(status) | miss: pass
func flowOn(name, url, hdr string, status int) string {
	return strings.ReplaceAll(answerFlow(name, url, status), "x-probe=1", hdr+"=1")
}

func reqTo(id, url string) func(s *streams.Stream) string {
	return func(s *streams.Stream) string {
		return eng.OnRequest(s, eng.Req{ID: id, URL: url, Headers: map[string]string{"x-probe": "1"}}).String()
	}
}

func moreScenarios() []scenario {
	fw2 := eng.Files{Flows: map[string]string{"f.yaml": limiterFlow}, Quotas: map[string]string{"q.yaml": fixedQuota(2)}}
	cx := eng.Files{Flows: map[string]string{"c.yaml": ctxFlow}}
	qu := eng.Files{Flows: map[string]string{"q.yaml": queueFlow},
		Quotas: map[string]string{"q.yaml": "quotas:\n  - id: Q\n    filter:\n      url: h.com/*\n    strategy:\n      fixed_window:\n        max: 1\n        interval: 1\n        interval_unit: second\n"}}
	// three flows on a wildcard pattern (they let everything pass) and one flow on each of two
	// literal URLs below it (each answers with its own status): the flow lists of the two
	// transactions share the wildcard node's flows
	nested := eng.Files{Flows: map[string]string{
		"w1.yaml": flowOn("wide1", "h.com/*", "x-w1", 401), "w2.yaml": flowOn("wide2", "h.com/*", "x-w2", 402), "w3.yaml": flowOn("wide3", "h.com/*", "x-w3", 403),
		"a.yaml": flowOn("onlyA", "h.com/a", "x-probe", 411), "b.yaml": flowOn("onlyB", "h.com/b", "x-probe", 412)}}
	return []scenario{
		{Name: "two-requests-nested-flows", Files: nested, Txns: []txn{{"A", reqTo("ta", "h.com/a")}, {"B", reqTo("tb", "h.com/b")}},
			Extra: func(res []string) (string, string) {
				if res[0] != "early(411)" || res[1] != "early(412)" {
					return "WRONG-FLOW-RAN", fmt.Sprintf("transactions on h.com/a and h.com/b were answered %v; their own flows answer 411 and 412", res)
				}
				return "", ""
			}},
		{Name: "two-requests-transactional-context", Files: cx, WithCtxProc: true, Extra: ctxOracle,
			Txns: []txn{{"T1", req("t1")}, {"T2", req("t2")}}},
		{Name: "three-requests-limit2", Files: fw2, Txns: []txn{{"T1", req("t1")}, {"T2", req("t2")}, {"T3", req("t3")}}},
		{Name: "two-requests-vs-queue-loop", Files: qu, MaxT: 25,
			Focus: []string{"lunar/engine/streams/processors/queue", "lunar/engine/streams/lunar-context.(*memoryQueue)", "lunar/engine/streams/resources/quota"},
			Txns:  []txn{{"T1", req("t1")}, {"T2", req("t2")}}},
	}
}

// ---- the SPOE message handler racing a flows reload --------------------------------------

const mgrMetricsYAML = `general_metrics:
  label_value:
    - http_method
    - status_code
    - host
  metric_value:
    - name: api_call_count
      description: Number of API calls
system_metrics:
  - name: active_flows
    description: Number of active flows
  - name: flow_invocations
    description: Number of flow invocations
labeled_endpoints: []
`

func answerFlow(name, url string, status int) string {
	return fmt.Sprintf(`name: %[1]s
filter:
  url: %[2]s
processors:
  F%[1]s:
    processor: Filter
    parameters:
      - key: header
        value: x-probe=1
  G%[1]s:
    processor: GenerateResponse
    parameters:
      - key: status
        value: %[3]d
flow:
  request:
    - from:
        stream:
          name: globalStream
          at: start
      to:
        processor:
          name: F%[1]s
    - from:
        processor:
          name: F%[1]s
          condition: hit
      to:
        processor:
          name: G%[1]s
    - from:
        processor:
          name: F%[1]s
          condition: miss
      to:
        stream:
          name: globalStream
          at: end
  response:
    - from:
        processor:
          name: G%[1]s
      to:
        stream:
          name: globalStream
          at: end
`, name, url, status)
}

var mgrRootN int

func mgrRoot() string {
	mgrRootN++
	root := filepath.Join(mc.WorkDir(), fmt.Sprintf("c18-mgr-%d-%d", os.Getpid(), mgrRootN))
	for _, d := range []string{"flows", "quotas", "path_params", "state"} {
		os.MkdirAll(filepath.Join(root, d), 0o755)
	}
	os.WriteFile(filepath.Join(root, "flows", "old.yaml"), []byte(answerFlow("fold", "h.com/*", 418)), 0o644)
	os.WriteFile(filepath.Join(root, "gateway_config.yaml"), []byte("allowed_domains: []\n"), 0o644)
	os.WriteFile(filepath.Join(root, "metrics.yaml"), []byte(mgrMetricsYAML), 0o644)
	eng.Point(root, "")
	environment.SetGatewayConfigPath(filepath.Join(root, "gateway_config.yaml"))
	environment.SetMetricsConfigFilePath(filepath.Join(root, "metrics.yaml"))
	environment.SetDiscoveryStateLocation(filepath.Join(root, "state", "discovery.json"))
	os.WriteFile(filepath.Join(root, "default_metrics.yaml"), []byte(mgrMetricsYAML), 0o644)
	os.Setenv(environment.MetricsConfigFileDefaultPathEnvVar, filepath.Join(root, "default_metrics.yaml"))
	os.Setenv("LUNAR_FLOWS_PATH_PARAM_CONFIG", filepath.Join(root, "state", "known_endpoints.yaml"))
	return root
}

func spoeRequest(id string) *message.Message {
	k := kv.NewKV()
	k.Add("id", id)
	k.Add("sequence_id", id)
	k.Add("method", "GET")
	k.Add("scheme", "https")
	k.Add("url", "h.com/a")
	k.Add("path", "/a")
	k.Add("query", "")
	k.Add("headers", "x-probe: 1\r\n")
	k.Add("body", []byte(""))
	return &message.Message{Name: "lunar-on-request", KV: k}
}

func statusOf(acts action.Actions) string {
	for _, a := range acts {
		if a.Name == "status_code" {
			return fmt.Sprint(a.Value)
		}
	}
	return "none"
}

type mgrState struct {
	rd     *routing.HandlingDataManager
	root   string
	cancel context.CancelFunc
	status int
	seen   []string
}

// handlerVsReload: one transaction goes through the real message handler
// (routing.processRequest) while /apply_flows replaces the engine; the verdict must be the old
// configuration's (418) or the new one's (420).
func handlerVsReload() *mc.SchedOpts {
	return &mc.SchedOpts{Name: "message-handler-vs-apply-flows", MaxT: 0,
		Focus: []string{"lunar/engine/routing", "lunar/engine/streams.(*Stream)", "lunar/engine/streams.(*flowMetricsData)", "lunar/engine/metrics"},
		Body: func(x *mc.Exec) {
			st := &mgrState{}
			x.Vals["st"] = st
			ctx, cancel := context.WithCancel(context.Background())
			st.cancel = cancel
			contextmanager.Get().WithContext(ctx)
			st.root = mgrRoot()
			http.DefaultClient.Transport = okTransport{}
			rd, err := routing.VerifNewHandlingDataManager()
			if err != nil {
				panic("manager did not start: " + err.Error())
			}
			st.rd = rd
			body, _ := json.Marshal(map[string]any{"flows": map[string]string{
				"old.yaml": base64.StdEncoding.EncodeToString([]byte(answerFlow("fold", "h.com/*", 420)))}})
			x.Go("reload", func() {
				rec := httptest.NewRecorder()
				rd.VerifHandleApplyFlows()(rec, httptest.NewRequest(http.MethodPut, "/apply_flows", bytes.NewReader(body)))
				st.status = rec.Code
				x.Logf("apply_flows -> %d", rec.Code)
			})
			x.Go("T1", func() {
				acts, err := routing.VerifProcessRequest(spoeRequest("t1"), rd)
				v := statusOf(acts)
				if err != nil {
					v = "error:" + err.Error()
				}
				st.seen = append(st.seen, v)
				x.Logf("T1 -> %s", v)
			})
		},
		Check: func(x *mc.Exec) (string, string) {
			st := x.Vals["st"].(*mgrState)
			if x.Horizon {
				return "", ""
			}
			if st.status != 200 {
				return "RELOAD-FAILED", fmt.Sprintf("/apply_flows with a valid payload answered %d", st.status)
			}
			for _, v := range st.seen {
				if v != "418" && v != "420" {
					return "NOT-SERIALISABLE:reload", fmt.Sprintf("a transaction handled during the reload got %s: neither the old configuration's verdict (418) nor the new one's (420)", v)
				}
			}
			return "", ""
		},
		Teardown: func(x *mc.Exec) {
			st := x.Vals["st"].(*mgrState)
			st.cancel()
			os.RemoveAll(st.root)
		}}
}

// unparsableHeaders: two transactions whose header block cannot be parsed (each continues
// "without any headers") are read by the handler's own message reader while a flow's
// header-setting action is applied to each; neither may see a header set on the other, and a
// well-formed transaction read afterwards sees exactly its own headers.
func unparsableHeaders() *mc.SchedOpts {
	type obs struct{ foreign []string }
	msg := func(id, headers string) *message.Message {
		m := spoeRequest(id)
		k := kv.NewKV()
		for _, f := range []string{"id", "sequence_id"} {
			k.Add(f, id)
		}
		k.Add("method", "GET")
		k.Add("scheme", "https")
		k.Add("url", "h.com/a")
		k.Add("path", "/a")
		k.Add("query", "")
		k.Add("headers", headers)
		k.Add("body", []byte(""))
		m.KV = k
		return m
	}
	return &mc.SchedOpts{Name: "two-requests-unparsable-header-block", MaxT: 0,
		Focus: []string{"lunar/engine/routing", "lunar/engine/utils"},
		Body: func(x *mc.Exec) {
			o := &obs{}
			x.Vals["obs"] = o
			var mu sync.Mutex
			for _, id := range []string{"t1", "t2"} {
				id := id
				x.Go(id, func() {
					args := routing.VerifReadRequestArgs(msg(id, "accept: */*\r\nx-trace: 0123456789abcd"))
					_ = routing.VerifReqActions(args, []actions.ReqLunarAction{&actions.ModifyHeadersAction{HeadersToSet: map[string]string{"x-set-for-" + id: "1"}}})
					mu.Lock()
					for k := range args.Headers {
						if k != "x-set-for-"+id {
							o.foreign = append(o.foreign, fmt.Sprintf("%s sees %q", id, k))
						}
					}
					mu.Unlock()
				})
			}
		},
		Check: func(x *mc.Exec) (string, string) {
			o := x.Vals["obs"].(*obs)
			if x.Horizon {
				return "", ""
			}
			if len(o.foreign) > 0 {
				sort.Strings(o.foreign)
				return "FOREIGN-HEADER", fmt.Sprintf("transactions with an unparsable header block share a header set: %v", o.foreign)
			}
			later := routing.VerifReadRequestArgs(msg("t3", "accept: */*\r\nx-trace: 0123456789abcd"))
			if len(later.Headers) != 0 {
				return "FOREIGN-HEADER:later-transaction", fmt.Sprintf("a later transaction with an unparsable header block starts with headers %v", later.Headers)
			}
			return "", ""
		}}
}

var _ = time.Second
var _ *streams.Stream
