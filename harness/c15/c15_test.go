// C15 — discovery statistics are independent of batching and lose no traffic.
// Engine: seqx product enumeration: every access-log record stream up to a length over a
// 20-letter alphabet x every composition of the stream into consecutive batches (x an
// optional restart between two batches), through the real discovery.Run / State /
// convergent URL tree of the aggregation plugin.
package c15

import (
	"fmt"
	"math"
	"os"
	"path/filepath"
	"sort"
	"strings"
	"testing"

	"lunar/aggregation-plugin/common"
	"lunar/aggregation-plugin/discovery"
	sharedDiscovery "lunar/shared-model/discovery"
	"verifharness/mc"
)

var urls = []string{"h.com/u/1", "h.com/u/2", "h.com/u/3", "h.com/v/1", "h.com"}

type profile struct {
	Method, Consumer, Interceptor string
	Status, Duration, Total       int
}

var profiles = []profile{
	{"GET", "", "lunar-py-interceptor/1.0", 200, 1, 3},
	{"GET", "c1", "lunar-py-interceptor/1.0", 500, 2, 2},
	{"POST", "", "malformed", 200, 4, 9},
	{"GET", "c1", "lunar-java-interceptor/2.0", 200, 4, 4},
}

const threshold = 2

// urlsX: a second URL list with a fourth id under h.com/u (letters 100, 101, ...: URL
// urlsX[(l-100)%7], profile (l-100)/7), so that a tree rebuilt after a restart can converge a
// second time on ids it has not seen before.
// urlsY: two levels of ids (letters 200 + 3*u + c: URL h.com/u/<u+1>/c/<c+1>, profile 0): the
// inner id can converge below one outer id before the outer id converges
var urlsY = func() []string {
	var l []string
	for u := 1; u <= 3; u++ {
		for c := 1; c <= 3; c++ {
			l = append(l, fmt.Sprintf("h.com/u/%d/c/%d", u, c))
		}
	}
	return l
}()

var urlsX = []string{"h.com/u/1", "h.com/u/2", "h.com/u/3", "h.com/u/4", "h.com/u/5", "h.com/u/6", "h.com/u/7"}

func split(letter int) (string, profile) {
	if letter >= 200 {
		return urlsY[(letter-200)%len(urlsY)], profiles[0]
	}
	if letter >= 100 {
		return urlsX[(letter-100)%len(urlsX)], profiles[(letter-100)/len(urlsX)]
	}
	return urls[letter%len(urls)], profiles[letter/len(urls)]
}

// known is the set of known endpoints the URL tree is built from (at start and at a restart).
var known sharedDiscovery.KnownEndpoints

func knownName() string {
	if len(known.Endpoints) == 0 {
		return ""
	}
	var n []string
	for _, e := range known.Endpoints {
		n = append(n, e.URL)
	}
	return " known-endpoints=" + strings.Join(n, ",")
}

func record(letter, pos int) common.AccessLog {
	u, p := split(letter)
	return common.AccessLog{Timestamp: 1700000000000 + int64((pos*7)%5)*1000, Duration: p.Duration, TotalDuration: p.Total, StatusCode: p.Status,
		Method: p.Method, Host: "h.com", URL: u, Interceptor: p.Interceptor, ConsumerTag: p.Consumer, RequestID: fmt.Sprintf("r%d", pos)}
}

func letterName(l int) string {
	u, p := split(l)
	return fmt.Sprintf("%s %s %d d=%d c=%q i=%q", p.Method, u, p.Status, p.Duration, p.Consumer, p.Interceptor)
}

type runResult struct {
	agg  discovery.Agg
	tree *common.SimpleURLTree
	err  string
}

var fileN int

// run processes the stream in the given batch composition; restartAfter = index of the
// batch after which the plugin restarts (-1 = never): state is re-read from disk, the URL
// tree is rebuilt (empty known endpoints), as on a real restart.
func run(stream []common.AccessLog, cuts []bool, restartAfter int) runResult {
	fileN++
	path := filepath.Join(mc.WorkDir(), fmt.Sprintf("discovery-%d.json", fileN))
	defer os.Remove(path)
	tree, err := common.BuildTree(known, threshold)
	if err != nil {
		return runResult{err: err.Error()}
	}
	st := &discovery.State{DiscoverFilepath: path}
	if err := st.InitializeState(); err != nil {
		return runResult{err: err.Error()}
	}
	batchNo := 0
	start := 0
	for i := 1; i <= len(stream); i++ {
		if i < len(stream) && !cuts[i-1] {
			continue
		}
		if err := discovery.Run(st, stream[start:i], tree); err != nil {
			return runResult{err: err.Error()}
		}
		start = i
		if batchNo == restartAfter && i < len(stream) {
			tree, _ = common.BuildTree(known, threshold)
			st = &discovery.State{DiscoverFilepath: path}
			if err := st.InitializeState(); err != nil {
				return runResult{err: "restart: " + err.Error()}
			}
		}
		batchNo++
	}
	return runResult{agg: *st.VerifAgg(), tree: tree}
}

type stats struct {
	count    int
	status   map[int]int
	min, max int64
	dur, tot int
}

func (s *stats) add(r common.AccessLog) {
	if s.status == nil {
		s.status = map[int]int{}
		s.min, s.max = r.Timestamp, r.Timestamp
	}
	s.count++
	s.status[r.StatusCode]++
	if r.Timestamp < s.min {
		s.min = r.Timestamp
	}
	if r.Timestamp > s.max {
		s.max = r.Timestamp
	}
	s.dur += r.Duration
	s.tot += r.TotalDuration
}

func closeTo(got float32, sum, n int) bool {
	want := float64(sum) / float64(n)
	return math.Abs(float64(got)-want) <= 1e-4*math.Max(1, math.Abs(want))
}

func checkAgg(e sharedDiscovery.Endpoint, a sharedDiscovery.EndpointAgg, s *stats, where string) string {
	if s == nil {
		return fmt.Sprintf("PHANTOM %s endpoint %v has count %d but no record is attributed to it", where, e, a.Count)
	}
	if int(a.Count) != s.count {
		return fmt.Sprintf("COUNT %s endpoint %v: count %d, records attributed to it %d", where, e, a.Count, s.count)
	}
	sum := 0
	for st, c := range a.StatusCodes {
		sum += int(c)
		if int(c) != s.status[st] {
			return fmt.Sprintf("STATUS %s endpoint %v: status %d counted %d times, records %d", where, e, st, c, s.status[st])
		}
	}
	if sum != int(a.Count) {
		return fmt.Sprintf("STATUS-SUM %s endpoint %v: count %d but status codes sum to %d", where, e, a.Count, sum)
	}
	if a.MinTime != s.min || a.MaxTime != s.max {
		return fmt.Sprintf("MINMAX %s endpoint %v: min/max %d/%d, extreme timestamps %d/%d", where, e, a.MinTime, a.MaxTime, s.min, s.max)
	}
	if !closeTo(a.AverageDuration, s.dur, s.count) || !closeTo(a.AverageTotalDuration, s.tot, s.count) {
		return fmt.Sprintf("AVERAGE %s endpoint %v: averages %v/%v, true means %v/%v", where, e, a.AverageDuration, a.AverageTotalDuration,
			float64(s.dur)/float64(s.count), float64(s.tot)/float64(s.count))
	}
	return ""
}

// conservation checks one final state against the stream, attributing records with the
// run's own final URL tree (lookup only).
func conservation(stream []common.AccessLog, rr runResult, attribute bool) string {
	total := 0
	for _, a := range rr.agg.Endpoints {
		total += int(a.Count)
	}
	if total != len(stream) {
		return fmt.Sprintf("LOST-OR-DUPLICATED %d records processed, endpoint counts sum to %d", len(stream), total)
	}
	ctot := 0
	for _, m := range rr.agg.Consumers {
		for _, a := range m {
			ctot += int(a.Count)
		}
	}
	if ctot != len(stream) {
		return fmt.Sprintf("LOST-OR-DUPLICATED:consumers %d records processed, per-consumer counts sum to %d", len(stream), ctot)
	}
	if !attribute {
		// restart runs: totals only (status sums, extreme timestamps)
		var all stats
		for _, r := range stream {
			all.add(r)
		}
		stSum := map[int]int{}
		mn, mx := int64(math.MaxInt64), int64(0)
		for _, a := range rr.agg.Endpoints {
			for st, c := range a.StatusCodes {
				stSum[st] += int(c)
			}
			if a.MinTime < mn {
				mn = a.MinTime
			}
			if a.MaxTime > mx {
				mx = a.MaxTime
			}
		}
		for st, c := range all.status {
			if stSum[st] != c {
				return fmt.Sprintf("STATUS-TOTAL after restart: status %d counted %d times over all endpoints, records %d", st, stSum[st], c)
			}
		}
		if mn != all.min || mx != all.max {
			return fmt.Sprintf("MINMAX-TOTAL after restart: overall min/max %d/%d, extreme timestamps %d/%d", mn, mx, all.min, all.max)
		}
		// the same totals per consumer (the per-consumer view is persisted and read back too)
		perCons := map[string]*stats{}
		for _, r := range stream {
			c := r.ConsumerTag
			if c == "" {
				c = discovery.UnknownConsumerTag
			}
			if perCons[c] == nil {
				perCons[c] = &stats{}
			}
			perCons[c].add(r)
		}
		for c, m := range rr.agg.Consumers {
			want := perCons[c]
			if want == nil {
				return fmt.Sprintf("PHANTOM after restart: consumer %q has aggregates but no record", c)
			}
			cst := map[int]int{}
			cmn, cmx, cn := int64(math.MaxInt64), int64(0), 0
			for e, a := range m {
				if a.MinTime > a.MaxTime {
					return fmt.Sprintf("MINMAX after restart: consumer %q endpoint %v has min %d > max %d", c, e, a.MinTime, a.MaxTime)
				}
				cn += int(a.Count)
				for st, k := range a.StatusCodes {
					cst[st] += int(k)
				}
				if a.MinTime < cmn {
					cmn = a.MinTime
				}
				if a.MaxTime > cmx {
					cmx = a.MaxTime
				}
			}
			if cn != want.count {
				return fmt.Sprintf("COUNT-TOTAL after restart: consumer %q counts sum to %d, records %d", c, cn, want.count)
			}
			for st, k := range want.status {
				if cst[st] != k {
					return fmt.Sprintf("STATUS-TOTAL after restart: consumer %q status %d counted %d times, records %d", c, st, cst[st], k)
				}
			}
			if cmn != want.min || cmx != want.max {
				return fmt.Sprintf("MINMAX-TOTAL after restart: consumer %q min/max %d/%d, extreme timestamps %d/%d", c, cmn, cmx, want.min, want.max)
			}
		}
		for e, a := range rr.agg.Endpoints {
			if a.MinTime > a.MaxTime {
				return fmt.Sprintf("MINMAX after restart: endpoint %v has min %d > max %d", e, a.MinTime, a.MaxTime)
			}
		}
		return ""
	}
	byEp := map[sharedDiscovery.Endpoint]*stats{}
	byCons := map[string]map[sharedDiscovery.Endpoint]*stats{}
	byInt := map[common.Interceptor]int64{}
	for _, r := range stream {
		u, ok := common.StrictNormalizeURL(rr.tree, r.URL)
		if !ok {
			u = r.URL
		}
		e := sharedDiscovery.Endpoint{Method: r.Method, URL: u}
		if byEp[e] == nil {
			byEp[e] = &stats{}
		}
		byEp[e].add(r)
		c := r.ConsumerTag
		if c == "" {
			c = discovery.UnknownConsumerTag
		}
		if byCons[c] == nil {
			byCons[c] = map[sharedDiscovery.Endpoint]*stats{}
		}
		if byCons[c][e] == nil {
			byCons[c][e] = &stats{}
		}
		byCons[c][e].add(r)
		ic := common.Interceptor{Type: "unknown", Version: "unknown"}
		if parts := strings.Split(r.Interceptor, "/"); len(parts) == 2 {
			ic = common.Interceptor{Type: parts[0], Version: parts[1]}
		}
		if r.Timestamp > byInt[ic] {
			byInt[ic] = r.Timestamp
		}
	}
	for e, a := range rr.agg.Endpoints {
		if f := checkAgg(e, a, byEp[e], "by-endpoint"); f != "" {
			return f
		}
	}
	for c, m := range rr.agg.Consumers {
		for e, a := range m {
			var s *stats
			if byCons[c] != nil {
				s = byCons[c][e]
			}
			if f := checkAgg(e, a, s, "consumer "+c); f != "" {
				return f
			}
		}
	}
	for ic, ts := range byInt {
		if rr.agg.Interceptors[ic].Timestamp != ts {
			return fmt.Sprintf("INTERCEPTOR %v last seen %d, latest record %d", ic, rr.agg.Interceptors[ic].Timestamp, ts)
		}
	}
	return ""
}

func canon(a discovery.Agg) string {
	var p []string
	ep := func(prefix string, m map[sharedDiscovery.Endpoint]sharedDiscovery.EndpointAgg) {
		for e, g := range m {
			var st []string
			for s, c := range g.StatusCodes {
				st = append(st, fmt.Sprintf("%d:%d", s, c))
			}
			sort.Strings(st)
			p = append(p, fmt.Sprintf("%s%s %s n=%d [%s] %d..%d avg=%.3f/%.3f", prefix, e.Method, e.URL, g.Count, strings.Join(st, ","), g.MinTime, g.MaxTime, g.AverageDuration, g.AverageTotalDuration))
		}
	}
	ep("", a.Endpoints)
	for c, m := range a.Consumers {
		ep("consumer "+c+": ", m)
	}
	for ic, g := range a.Interceptors {
		p = append(p, fmt.Sprintf("interceptor %v @%d", ic, g.Timestamp))
	}
	sort.Strings(p)
	return strings.Join(p, "\n")
}

type replay struct {
	Stream       []int    `json:"stream"`
	Records      []string `json:"records"`
	Cuts         []bool   `json:"cuts"`
	RestartAfter int      `json:"restart_after"`
	Known        []string `json:"known_endpoints,omitempty"`
}

func knownURLs() []string {
	var n []string
	for _, e := range known.Endpoints {
		n = append(n, e.URL)
	}
	return n
}

func setKnown(urls ...string) {
	known = sharedDiscovery.KnownEndpoints{}
	for _, u := range urls {
		known.Endpoints = append(known.Endpoints, sharedDiscovery.Endpoint{Method: "GET", URL: u})
	}
}

// twoLevelKey: every violation found in the two-level family is reported under one key (the
// unchanged tree already violates the property there, in a way that depends on Go's map
// iteration order inside the plugin, so which clause fails varies from run to run)
const twoLevelKey = "TWO-LEVEL-CONVERGENCE"

func evalStream(r *mc.Run, letters []int) {
	twoLevel := len(letters) > 0 && letters[0] >= 200
	vkey := func(clause string) string {
		if twoLevel {
			return twoLevelKey
		}
		return clause
	}
	stream := make([]common.AccessLog, len(letters))
	var names []string
	for i, l := range letters {
		stream[i] = record(l, i)
		names = append(names, letterName(l))
	}
	n := len(stream)
	ncomp := 1 << (n - 1)
	var first string
	distinct := map[string]bool{}
	for _, l := range letters {
		u, _ := split(l)
		distinct[u] = true
	}
	for comp := 0; comp < ncomp; comp++ {
		cuts := make([]bool, n-1)
		nb := 1
		for i := range cuts {
			cuts[i] = comp&(1<<i) != 0
			if cuts[i] {
				nb++
			}
		}
		rr := run(stream, cuts, -1)
		r.Add("evaluations", 1)
		fail := rr.err
		if fail == "" {
			fail = conservation(stream, rr, true)
		}
		if fail == "" {
			c := canon(rr.agg)
			if comp == 0 {
				first = c
			} else if c != first {
				fail = fmt.Sprintf("BATCH-DEPENDENT the final statistics differ from the single-batch run:\n--- single batch\n%s\n--- this composition\n%s", first, c)
			}
		}
		if fail != "" {
			r.Violation(vkey(strings.SplitN(fail, " ", 2)[0]), fmt.Sprintf("stream=%v%s batches cut after %v: %s", names, knownName(), cuts, fail), replay{letters, names, cuts, -1, knownURLs()})
			r.Outcome("violation")
			continue
		}
		// restart between any two batches: totals preserved
		for ra := 0; ra < nb-1; ra++ {
			rr2 := run(stream, cuts, ra)
			r.Add("evaluations", 1)
			f2 := rr2.err
			if f2 == "" {
				f2 = conservation(stream, rr2, false)
			}
			if f2 != "" {
				r.Violation(vkey("RESTART:"+strings.SplitN(f2, " ", 2)[0]), fmt.Sprintf("stream=%v%s batches cut after %v restart after batch %d: %s", names, knownName(), cuts, ra, f2), replay{letters, names, cuts, ra, knownURLs()})
			}
		}
	}
	if len(distinct) >= 3 && n >= 3 {
		r.NonTrivial(fmt.Sprint(letters))
	}
	r.Outcome(fmt.Sprintf("endpoints=%d", strings.Count(first, "\n")+1))
}

func TestCheck(t *testing.T) {
	r := mc.New("C15", "exploration")
	if f := mc.ReplayFile(); f != "" {
		var rp replay
		if err := mc.LoadReplay(f, &rp); err != nil {
			t.Fatal(err)
		}
		setKnown(rp.Known...)
		stream := make([]common.AccessLog, len(rp.Stream))
		for i, l := range rp.Stream {
			stream[i] = record(l, i)
		}
		rr := run(stream, rp.Cuts, rp.RestartAfter)
		f1 := conservation(stream, rr, rp.RestartAfter < 0)
		single := run(stream, make([]bool, len(stream)-1), -1)
		fmt.Printf("stream=%v cuts=%v restart=%d\n--- result\n%s\n--- single batch\n%s\n--- oracle: %q\n", rp.Records, rp.Cuts, rp.RestartAfter, canon(rr.agg), canon(single.agg), f1)
		if f1 != "" || (rp.RestartAfter < 0 && canon(rr.agg) != canon(single.agg)) {
			t.Fail()
		}
		return
	}
	nl := len(urls) * len(profiles)
	fullLen := mc.Pick(r, 3, 4)
	r.Rule = fmt.Sprintf("every access-log stream of length 1..%d over %d record letters (5 URLs, three of which converge under an inferred path parameter at threshold %d, x 4 method/status/duration/consumer/interceptor profiles), plus all streams one record longer over 10 letters and over the 4 path URLs x {GET, POST}, and two records longer (length %d) over the 4 path URLs, and over four ids under one path, and 6-7 records with pairwise different ids under one path, and 5 (thorough 6) records over two levels of ids (3 x 3, up to renaming); the latter families also with the tree built from known endpoints (a wildcard covering all traffic / a declared path parameter); x every composition into consecutive batches x a restart (state re-read from disk, tree rebuilt) after any batch; non-trivial = stream with >=3 distinct URLs; distinct = stream", fullLen, nl, threshold, fullLen+2)
	r.Assume("records are attributed to endpoints with the run's own final URL tree (lookup only)", "after a restart only totals are compared (the rebuilt tree may attribute later records to raw URLs)",
		"averages compared with the exact rational mean within 1e-4 relative")
	if r.Parallel(t, 16) {
		r.Finish(t)
		return
	}
	idx := 0
	visit := func(l []int) {
		idx++
		if !r.Mine(idx) {
			return
		}
		evalStream(r, append([]int{}, l...))
		if idx%4001 == 11 {
			var names []string
			for _, x := range l {
				names = append(names, letterName(x))
			}
			r.Sample(map[string]any{"stream": names, "compositions": 1 << (len(l) - 1)})
		}
	}
	// (0) [runs first, so that a time budget never cuts it off] two levels of ids: every stream of 5 and 6 records over 3 x 3 ids up to renaming of
	// the ids (first occurrences in increasing order)
	canonical := func(l []int) bool {
		nu, nc := 0, 0
		for _, x := range l {
			u, c := x/3, x%3
			if u > nu || c > nc {
				return false
			}
			if u == nu {
				nu++
			}
			if c == nc {
				nc++
			}
		}
		return true
	}
	for n := 5; n <= mc.Pick(r, 5, 6); n++ {
		mc.Sequences(9, n, func(l []int) bool {
			if len(l) == n && canonical(l) {
				m := make([]int, n)
				for i, x := range l {
					m[i] = 200 + x
				}
				visit(m)
			}
			return true
		})
	}
	// (1) full alphabet up to fullLen
	mc.Sequences(nl, fullLen, func(l []int) bool {
		if len(l) > 0 {
			visit(l)
		}
		return true
	})
	// (2) one length more over the 5 URLs x the first two profiles
	half := 2 * len(urls)
	mc.Sequences(half, fullLen+1, func(l []int) bool {
		if len(l) == fullLen+1 {
			visit(l)
		}
		return true
	})
	// (2b) the same length over the four path URLs x {GET profile, POST profile}: two methods on
	// one URL while the tree converges
	mc.Sequences(8, fullLen+1, func(l []int) bool {
		if len(l) == fullLen+1 {
			m := make([]int, len(l))
			for i, x := range l {
				m[i] = x % 4 // URL
				if x >= 4 {
					m[i] += 2 * len(urls) // profile 2 (POST)
				}
			}
			visit(m)
		}
		return true
	})
	// (3) two lengths more over the four path URLs with one profile
	mc.Sequences(4, fullLen+2, func(l []int) bool {
		if len(l) == fullLen+2 {
			visit(l)
		}
		return true
	})
	// (4) four ids under one path (a tree rebuilt after a restart converges a second time on
	// ids it has not seen), lengths up to fullLen+2, one profile; and one length less with
	// two consumers
	ext := func(l []int, profilesUsed int) []int {
		m := make([]int, len(l))
		for i, x := range l {
			m[i] = 100 + x%4 + len(urlsX)*((x/4)%profilesUsed)
		}
		return m
	}
	mc.Sequences(4, fullLen+2, func(l []int) bool {
		if len(l) >= fullLen+1 {
			visit(ext(l, 1))
		}
		return true
	})
	mc.Sequences(8, fullLen+1, func(l []int) bool {
		if len(l) == fullLen+1 {
			visit(ext(l, 2))
		}
		return true
	})
	// (4b) six and seven records with pairwise different ids (what a tree rebuilt after a
	// restart needs to converge a second time: threshold+1 ids before and after it), every
	// assignment of two consumer/status profiles to the records
	for n := 2*threshold + 2; n <= 2*threshold+3; n++ {
		mc.Sequences(2, n, func(l []int) bool {
			if len(l) == n {
				m := make([]int, n)
				for i, x := range l {
					m[i] = 100 + i + len(urlsX)*x
				}
				visit(m)
			}
			return true
		})
	}
	// (5) the same families with a tree built from known endpoints: a wildcard that covers
	// all the traffic, and a declared path parameter
	for _, kn := range [][]string{{"h.com/*"}, {"h.com/u/{id}"}, {"{t}.com/zzz"}} {
		setKnown(kn...)
		mc.Sequences(4, fullLen+2, func(l []int) bool {
			if len(l) >= fullLen {
				visit(ext(l, 1))
			}
			return true
		})
		mc.Sequences(2*len(urls), fullLen, func(l []int) bool {
			if len(l) > 0 {
				visit(l)
			}
			return true
		})
	}
	setKnown()
	r.Finish(t)
}
