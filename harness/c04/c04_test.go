// C04 — flow execution follows the configured processor graph.
// Engine: seqx product enumeration.  Every well-formed flow graph of the bounded family is
// rendered to YAML and loaded into a real streams.Stream; every input (an output choice per
// processor: no condition / a / b / answer the request itself) is run through the real
// request and response entry points.  A recording wrapper around every processor factory
// emits one event per processor execution; the event sequence is compared with an
// independent reference walker written from the statement.
package c04

import (
	"fmt"
	"os"
	"strings"
	"testing"
	"time"

	"lunar/engine/streams"
	"verifharness/eng"
	fg "verifharness/flowgen"
	"verifharness/mc"
	"verifharness/probe"
)

type replay struct {
	CurrentType bool              `json:"probes_report_current_stream_type"`
	Family      string            `json:"family"`
	Flows       map[string]string `json:"flows"`
	Quotas      map[string]string `json:"quotas,omitempty"`
	Plan        map[string]string `json:"plan"`
	URL         string            `json:"url"`
	Want        []string          `json:"expected_events"`
	Got         []string          `json:"observed_events"`
}

var procDir string

func load(files eng.Files) (*streams.Stream, string, error) {
	return eng.NewStreamP(files, procDir)
}

func keysOf(evs []probe.Event, dir string, userOnly bool) (out []string) {
	for _, e := range evs {
		if e.Dir != dir {
			continue
		}
		if userOnly && strings.HasPrefix(e.Flow, "SystemFlow") {
			continue
		}
		out = append(out, e.Flow+"/"+e.Key)
	}
	return
}

func pref(flow string, keys []string) []string {
	out := make([]string, len(keys))
	for i, k := range keys {
		out[i] = flow + "/" + k
	}
	return out
}

func eq(a, b []string) bool { return strings.Join(a, " ") == strings.Join(b, " ") }

func sameMultiset(a, b []string) bool {
	m := map[string]int{}
	for _, x := range a {
		m[x]++
	}
	for _, x := range b {
		m[x]--
	}
	for _, v := range m {
		if v != 0 {
			return false
		}
	}
	return true
}

// classify names the kind of disagreement (stable part of the violation key).
func classify(want, got []string) string {
	switch {
	case sameMultiset(want, got):
		return "ORDER"
	case len(got) < len(want):
		return "NOT-RUN"
	default:
		return "OFF-PATH-RUN"
	}
}

// planOut adapts a plan (map "dir:flow/key" -> output) to the reference walker.
func planOut(plan map[string]string, flow string) fg.Out {
	return func(dir, key string) string { return plan[dir+":"+flow+"/"+key] }
}

var txnN int

func runTxn(s *streams.Stream, url string, plan map[string]string, withResponse bool) (evs []probe.Event, v eng.Verdict, rv eng.RespVerdict) {
	txnN++
	id := fmt.Sprintf("t%d", txnN)
	probe.Reset(plan)
	v = eng.OnRequest(s, eng.Req{ID: id, URL: url})
	if withResponse && !v.Early && v.Err == "" {
		rv = eng.OnResponse(s, eng.Resp{ID: id, URL: url, Status: 200})
	}
	evs = append([]probe.Event{}, probe.Events...)
	return
}

// response shapes used with the enumerated request graphs (where each request node
// continues when it answers the request itself)
func responseShape(k int, req fg.Graph) fg.Graph {
	n := len(req.Nodes)
	switch k {
	case 0: // every node -> stream end, no root
		g := fg.Graph{Nodes: req.Nodes, Root: -1, Edges: make([][]fg.Edge, n)}
		for i := range g.Edges {
			g.Edges[i] = []fg.Edge{{Cond: "", To: fg.End}}
		}
		return g
	case 1: // rooted R1 -> end; every node -> R1
		g := fg.Graph{Nodes: append(append([]string{}, req.Nodes...), "R1"), Root: n, Edges: make([][]fg.Edge, n+1)}
		for i := 0; i < n; i++ {
			g.Edges[i] = []fg.Edge{{Cond: "", To: n}}
		}
		g.Edges[n] = []fg.Edge{{Cond: "", To: fg.End}}
		return g
	default: // R1 branches: R1[a] -> R2 -> end, R1[] -> end; every node -> R1
		g := fg.Graph{Nodes: append(append([]string{}, req.Nodes...), "R1", "R2"), Root: n, Edges: make([][]fg.Edge, n+2)}
		for i := 0; i < n; i++ {
			g.Edges[i] = []fg.Edge{{Cond: "", To: n}}
		}
		g.Edges[n] = []fg.Edge{{Cond: "a", To: n + 1}, {Cond: "", To: fg.End}}
		g.Edges[n+1] = []fg.Edge{{Cond: "", To: fg.End}}
		return g
	}
}

func outputs(conds []string, early bool) []string {
	o := append([]string{}, conds...)
	if early {
		o = append(o, "early")
	}
	return o
}

func TestCheck(t *testing.T) {
	r := mc.New("C04", "exploration")
	procDir = probe.Install()
	if f := mc.ReplayFile(); f != "" {
		var rp replay
		if err := mc.LoadReplay(f, &rp); err != nil {
			t.Fatal(err)
		}
		s, _, err := load(eng.Files{Flows: rp.Flows, Quotas: rp.Quotas})
		if err != nil {
			t.Fatal(err)
		}
		probe.ReportCurrentType = rp.CurrentType
		evs, v, rv := runTxn(s, rp.URL, rp.Plan, true)
		fmt.Printf("family %s url %s plan %v\nexpected %v\nobserved %v\nverdict %s / %s\n", rp.Family, rp.URL, rp.Plan, rp.Want, evs, v, rv)
		for n, y := range rp.Flows {
			fmt.Printf("--- %s\n%s", n, y)
		}
		t.Fail()
		return
	}
	conds := mc.Pick(r, []string{"", "a"}, []string{"", "a", "b"})
	r.Rule = "A: request graphs over <=3 probe processors (and over 4 with unconditional connections) (forward edges, <=2 ordered connections per node, conditions " + fmt.Sprint(conds) + ", connections to the stream end anywhere in the list) x 3 response shapes x every output choice per node (incl. answering the request itself); B: the same graph family as the response direction x every output choice; C: two user flows on nested URL patterns + quota system flows x output choices; D: a flow referencing another flow in the three ways of the schema (D1-D3), an early response inside the referenced flow (D4), two flows referencing the same third flow (D5); non-trivial = inputs whose expected path branches, fans out or answers early; distinct = (graph, input)"
	r.Assume("processors are harness probes (VerifProbe) whose output is chosen by the harness; built-in processors appear only in the system flows of family C", "graphs the loader rejects are counted, not checked")
	if r.Parallel(t, 16) {
		r.Finish(t)
		return
	}
	t0 := time.Now()
	ph := func(n string) {
		if os.Getenv("VERIF_DEBUG") != "" {
			fmt.Fprintf(os.Stderr, "PHASE %s done at %v\n", n, time.Since(t0))
		}
	}
	familyA(t, r, conds)
	ph("A")
	familyB(t, r, conds)
	ph("B")
	familyC(t, r)
	ph("C")
	familyD(t, r, conds)
	ph("D")
	familyD4(t, r)
	familyD5(t, r, conds)
	ph("D5")
	r.Finish(t)
}

func familyA(t *testing.T, r *mc.Run, conds []string) {
	idx := 0
	for n := 1; n <= 4; n++ {
		keys := []string{"P1", "P2", "P3", "P4"}[:n]
		conds := conds
		if n == 4 && !r.Thorough() {
			// four processors (the smallest fan-out whose first branch is two processors deep,
			// where depth-first and breadth-first walks differ): unconditional connections only
			conds = []string{""}
		}
		fg.Forward(keys, conds, 2, func(g fg.Graph) {
			for shape := 0; shape < 3; shape++ {
				idx++
				if os.Getenv("VERIF_DEBUG") != "" && idx%500000 == 0 {
					fmt.Fprintf(os.Stderr, "A n=%d idx=%d out-of-time=%v\n", n, idx, r.OutOfTime())
				}
				if !r.Mine(idx) {
					continue
				}
				res := responseShape(shape, g)
				files := eng.Files{Flows: map[string]string{"f.yaml": fg.FlowYAML("f", "h.com/*", g, res)}}
				s, _, err := load(files)
				if err != nil {
					r.Add("rejected_graphs", 1)
					r.Outcome("rejected: " + firstWords(err.Error()))
					continue
				}
				r.Add("graphs", 1)
				outs := outputs(conds, true)
				resNodes := res.Nodes[len(g.Nodes):]
				tuples(outs, n, func(choice []string) {
					for _, ro := range resOutputs(resNodes) {
						plan := map[string]string{}
						for i, c := range choice {
							plan["req:f/"+keys[i]] = c
						}
						for k, v := range ro {
							plan["res:f/"+k] = v
						}
						check(r, "A", files, s, "h.com/x", plan, g, res)
					}
				})
			}
		})
	}
}

func resOutputs(nodes []string) []map[string]string {
	out := []map[string]string{{}}
	for _, n := range nodes {
		var next []map[string]string
		for _, m := range out {
			for _, o := range []string{"", "a"} {
				c := map[string]string{}
				for k, v := range m {
					c[k] = v
				}
				c[n] = o
				next = append(next, c)
			}
		}
		out = next
	}
	return out
}

// tuples calls f with every tuple of length n over opts.
func tuples(opts []string, n int, f func([]string)) {
	idx := make([]int, n)
	for {
		c := make([]string, n)
		for i, j := range idx {
			c[i] = opts[j]
		}
		f(c)
		k := n - 1
		for k >= 0 {
			idx[k]++
			if idx[k] < len(opts) {
				break
			}
			idx[k] = 0
			k--
		}
		if k < 0 {
			return
		}
	}
}

func firstWords(s string) string {
	if len(s) > 70 {
		return s[:70]
	}
	return s
}

// check runs one transaction (request, then its response unless answered early) on a
// single-flow engine and compares the events with the reference.
func check(r *mc.Run, family string, files eng.Files, s *streams.Stream, url string, plan map[string]string, req, res fg.Graph) {
	// both ways a processor may describe its output: StreamTypeAny, or the current stream type
	for _, cur := range []bool{false, true} {
		probe.ReportCurrentType = cur
		check1(r, family, files, s, url, plan, req, res)
	}
	probe.ReportCurrentType = false
}

func check1(r *mc.Run, family string, files eng.Files, s *streams.Stream, url string, plan map[string]string, req, res fg.Graph) {
	out := planOut(plan, "f")
	wantReq, early := fg.WalkReq(req, out)
	var wantRes []string
	if early >= 0 {
		// the response path continues from that processor's response connection
		ri := res.Index(req.Nodes[early])
		if ri >= 0 && len(res.Edges[ri]) > 0 && res.Edges[ri][0].To >= 0 {
			wantRes = fg.WalkRes(res, out, res.Edges[ri][0].To)
		}
	} else {
		wantRes = fg.WalkRes(res, out, -1)
	}
	evs, v, rv := runTxn(s, url, plan, true)
	r.Add("evaluations", 1)
	gotReq, gotRes := keysOf(evs, "req", true), keysOf(evs, "res", true)
	wReq, wRes := pref("f", wantReq), pref("f", wantRes)
	branching := early >= 0 || len(wantReq) != len(req.Nodes) || len(wantReq) > len(req.Nodes)
	sig := fmt.Sprintf("%s|%s|%v", req, res, plan)
	if branching {
		r.NonTrivial(sig)
	}
	r.Outcome(fmt.Sprintf("%s req=%d res=%d early=%v", family, len(gotReq), len(gotRes), early >= 0))
	if txnN%997 == 1 {
		r.Sample(map[string]any{"family": family, "request_graph": req.String(), "response_graph": res.String(), "plan": fmt.Sprint(plan), "events": fmt.Sprint(evs)})
	}
	fail := func(clause, what string, want, got []string) {
		r.Violation(clause, fmt.Sprintf("family %s request graph {%s} response graph {%s} input %v: %s: expected %v, observed %v", family, req, res, plan, what, want, got),
			replay{probe.ReportCurrentType, family, files.Flows, files.Quotas, plan, url, append(append([]string{}, wReq...), wRes...), probeStrings(evs)})
	}
	if v.Err != "" || rv.Err != "" {
		fail("ERROR", "the engine returned an error: "+v.Err+rv.Err, nil, nil)
		return
	}
	if !eq(wReq, gotReq) {
		fail("REQUEST-PATH:"+classify(wReq, gotReq)+earlyTag(early), "request-direction processors", wReq, gotReq)
		return
	}
	if (early >= 0) != v.Early {
		fail("EARLY-VERDICT", fmt.Sprintf("answered early: expected %v, verdict %s", early >= 0, v), nil, nil)
		return
	}
	if early >= 0 && v.Body != req.Nodes[early] {
		fail("EARLY-VERDICT", fmt.Sprintf("the early response is %q, expected the one of %s", v.Body, req.Nodes[early]), nil, nil)
		return
	}
	if !eq(wRes, gotRes) {
		fail("RESPONSE-PATH:"+classify(wRes, gotRes)+earlyTag(early), "response-direction processors", wRes, gotRes)
	}
}

func earlyTag(early int) string {
	if early >= 0 {
		return ":after-early-response"
	}
	return ""
}

func probeStrings(evs []probe.Event) []string {
	out := make([]string, len(evs))
	for i, e := range evs {
		out[i] = e.String()
	}
	return out
}

func familyB(t *testing.T, r *mc.Run, conds []string) {
	idx := 1 << 20
	req := fg.Graph{Nodes: []string{"Q"}, Root: 0, Edges: [][]fg.Edge{{{Cond: "", To: fg.End}}}}
	for n := 1; n <= 4; n++ {
		keys := []string{"R1", "R2", "R3", "R4"}[:n]
		conds := conds
		if n == 4 && !r.Thorough() {
			conds = []string{""}
		}
		fg.Forward(keys, conds, 2, func(g fg.Graph) {
			idx++
			if !r.Mine(idx) {
				return
			}
			files := eng.Files{Flows: map[string]string{"f.yaml": fg.FlowYAML("f", "h.com/*", req, g)}}
			s, _, err := load(files)
			if err != nil {
				r.Add("rejected_graphs", 1)
				r.Outcome("rejected: " + firstWords(err.Error()))
				return
			}
			r.Add("graphs", 1)
			tuples(outputs(conds, false), n, func(choice []string) {
				plan := map[string]string{}
				for i, c := range choice {
					plan["res:f/"+keys[i]] = c
				}
				check(r, "B", files, s, "h.com/x", plan, req, g)
			})
		})
	}
}

// ---- family C: several flows on one transaction, quota system flows --------------------

func chain(keys ...string) fg.Graph {
	g := fg.Graph{Nodes: keys, Root: 0, Edges: make([][]fg.Edge, len(keys))}
	for i := range keys {
		if i+1 < len(keys) {
			g.Edges[i] = []fg.Edge{{Cond: "", To: i + 1}}
		} else {
			g.Edges[i] = []fg.Edge{{Cond: "", To: fg.End}}
		}
	}
	return g
}

// resFor: rooted response direction root -> end; every request node -> root.
func resFor(root string, reqKeys ...string) fg.Graph {
	g := fg.Graph{Nodes: append(append([]string{}, reqKeys...), root), Root: len(reqKeys), Edges: make([][]fg.Edge, len(reqKeys)+1)}
	for i := range reqKeys {
		g.Edges[i] = []fg.Edge{{Cond: "", To: len(reqKeys)}}
	}
	g.Edges[len(reqKeys)] = []fg.Edge{{Cond: "", To: fg.End}}
	return g
}

func fixedQuota(id, url string) string {
	return fmt.Sprintf("quotas:\n  - id: %s\n    filter:\n      url: %s\n    strategy:\n      fixed_window:\n        max: 1000\n        interval: 10\n        interval_unit: second\n", id, url)
}

func concurrentQuota(id, url string) string {
	return fmt.Sprintf("quotas:\n  - id: %s\n    filter:\n      url: %s\n    strategy:\n      concurrent:\n        max_request_count: 1000\n        request_expiration_sec: 100\n        gc_interval_sec: 100\n", id, url)
}

type flowSpec struct {
	name, url string
	req, res  fg.Graph
}

func familyC(t *testing.T, r *mc.Run) {
	sh, _ := r.Shard()
	if sh != 0 {
		return
	}
	specs := []flowSpec{
		{"fw", "h.com/*", chain("W1", "W2"), resFor("RW", "W1", "W2")},
		{"fs", "h.com/x/*", chain("S1", "S2"), resFor("RS", "S1", "S2")},
		{"fe", "h.com/x/y", chain("E1"), resFor("RE", "E1")},
	}
	quotaSets := []map[string]string{
		nil,
		{"q1.yaml": fixedQuota("Q1", "h.com/*")},
		{"q1.yaml": concurrentQuota("Q1", "h.com/*")},
		{"q1.yaml": concurrentQuota("Q1", "h.com/*") + strings.TrimPrefix(concurrentQuota("Q2", "h.com/x/*"), "quotas:\n")},
	}
	for _, sub := range [][]int{{0, 1}, {0, 1, 2}, {1, 2}} {
		for qi, quotas := range quotaSets {
			files := eng.Files{Flows: map[string]string{}, Quotas: quotas}
			var fl []flowSpec
			var keys []string // "flow/key" of request nodes
			for _, i := range sub {
				sp := specs[i]
				fl = append(fl, sp)
				files.Flows[sp.name+".yaml"] = fg.FlowYAML(sp.name, sp.url, sp.req, sp.res)
				for _, k := range sp.req.Nodes {
					keys = append(keys, sp.name+"/"+k)
				}
			}
			s, _, err := load(files)
			if err != nil {
				r.Violation("LOAD:family-C", "family C configuration does not load: "+err.Error(), replay{Family: "C", Flows: files.Flows, Quotas: files.Quotas})
				continue
			}
			r.Add("graphs", 1)
			tuples([]string{"", "early"}, len(keys), func(choice []string) {
				plan := map[string]string{}
				for i, c := range choice {
					plan["req:"+keys[i]] = c
				}
				checkC(r, files, s, "h.com/x/y", plan, fl, qi)
			})
		}
	}
}

// checkC: request order of the user flows is observed on a run without early response
// (the statement does not fix the order between user flows, only that responses run in
// reverse); then for every input:
//   - system flows of quotas run before any user-flow processor on requests;
//   - after a processor answers the request itself no later request-direction processor of
//     any user flow runs, and the response path continues from that processor's response
//     connection (its flow's response root) ;
//   - on responses the user flows, and the system flows, run in the reverse of their
//     request order.
func checkC(r *mc.Run, files eng.Files, s *streams.Stream, url string, plan map[string]string, fl []flowSpec, qi int) {
	for _, cur := range []bool{false, true} {
		probe.ReportCurrentType = cur
		checkC1(r, files, s, url, plan, fl, qi)
	}
	probe.ReportCurrentType = false
}

func checkC1(r *mc.Run, files eng.Files, s *streams.Stream, url string, plan map[string]string, fl []flowSpec, qi int) {
	evs, v, rv := runTxn(s, url, plan, true)
	r.Add("evaluations", 1)
	fail := func(clause, what string) {
		r.Violation(clause, fmt.Sprintf("family C flows %v quota set %d input %v: %s; events %v", names(fl), qi, plan, what, probeStrings(evs)),
			replay{probe.ReportCurrentType, "C", files.Flows, files.Quotas, plan, url, nil, probeStrings(evs)})
	}
	if v.Err != "" || rv.Err != "" {
		fail("ERROR:family-C", "engine error "+v.Err+rv.Err)
		return
	}
	isSys := func(e probe.Event) bool { return strings.HasPrefix(e.Flow, "SystemFlow") }
	// 0. a processor of a (linear) system or user flow of this family runs at most once per
	// direction for one transaction
	times := map[string]int{}
	for _, e := range evs {
		k := e.Dir + ":" + e.Flow + "/" + e.Key
		times[k]++
		if times[k] == 2 {
			clause := "RAN-TWICE:family-C"
			if isSys(e) {
				clause = "SYSTEM-FLOW:ran-twice"
			}
			fail(clause, fmt.Sprintf("%s was executed twice for one transaction", k))
			return
		}
	}
	// 1. request side: system flows first
	seenUser := false
	for _, e := range evs {
		if e.Dir != "req" {
			continue
		}
		if !isSys(e) {
			seenUser = true
		} else if seenUser && !strings.Contains(e.Flow, "End") {
			fail("SYSTEM-FLOW-ORDER:request", "a quota system flow ran after a user flow on the request")
			return
		}
	}
	// 2. early response: nothing of the request path afterwards
	earlyAt := -1
	for i, e := range evs {
		if e.Dir == "req" && e.Early && !isSys(e) {
			earlyAt = i
			break
		}
	}
	var reqFlows, resFlows, sysReq, sysRes []string
	add := func(l []string, f string) []string {
		if len(l) == 0 || l[len(l)-1] != f {
			l = append(l, f)
		}
		return l
	}
	for i, e := range evs {
		switch {
		case e.Dir == "req" && !isSys(e):
			if earlyAt >= 0 && i > earlyAt {
				fail("REQUEST-PATH:OFF-PATH-RUN:after-early-response:other-flow", fmt.Sprintf("%s ran on the request after %s had answered it", e, evs[earlyAt]))
				return
			}
			reqFlows = add(reqFlows, e.Flow)
		case e.Dir == "res" && !isSys(e):
			resFlows = add(resFlows, e.Flow)
		case e.Dir == "req":
			sysReq = add(sysReq, quotaOf(e.Flow))
		default:
			sysRes = add(sysRes, quotaOf(e.Flow))
		}
	}
	if os.Getenv("VERIF_DEBUG") != "" {
		fmt.Printf("C %v q%d %v -> %v | %s\n", names(fl), qi, plan, probeStrings(evs), v)
	}
	r.Outcome(fmt.Sprintf("C req=%v res=%v sysreq=%d sysres=%d early=%v", reqFlows, resFlows, len(sysReq), len(sysRes), earlyAt >= 0))
	r.NonTrivial(fmt.Sprintf("C|%v|%d|%v", names(fl), qi, plan))
	if txnN%41 == 0 {
		r.Sample(map[string]any{"family": "C", "flows": fmt.Sprint(names(fl)), "quota_set": qi, "plan": fmt.Sprint(plan), "events": fmt.Sprint(probeStrings(evs))})
	}
	if (earlyAt >= 0) != v.Early {
		fail("EARLY-VERDICT:family-C", fmt.Sprintf("early=%v but verdict %s", earlyAt >= 0, v))
		return
	}
	if earlyAt >= 0 {
		ef := evs[earlyAt].Flow
		if v.Body != evs[earlyAt].Key {
			fail("EARLY-VERDICT:family-C", fmt.Sprintf("the early response is %q, expected the one of %s", v.Body, evs[earlyAt].Key))
			return
		}
		// the answering flow's response path continues from the answering node's response
		// connection, i.e. its response root R?, exactly once
		n := 0
		for _, e := range evs {
			if e.Dir == "res" && e.Flow == ef {
				n++
			}
		}
		if n != 1 {
			fail("RESPONSE-PATH:after-early-response:family-C", fmt.Sprintf("flow %s answered the request; its response path ran %d processors, expected exactly its response root", ef, n))
			return
		}
	}
	// 3. reverse order on responses (for flows that ran in both directions)
	rev := func(req, res []string) bool {
		in := map[string]bool{}
		for _, f := range req {
			in[f] = true
		}
		var rr []string
		for _, f := range res {
			if in[f] {
				rr = append(rr, f)
			}
		}
		inr := map[string]bool{}
		for _, f := range rr {
			inr[f] = true
		}
		var qq []string
		for _, f := range req {
			if inr[f] {
				qq = append(qq, f)
			}
		}
		for i := range qq {
			if qq[i] != rr[len(rr)-1-i] {
				return false
			}
		}
		return true
	}
	if !rev(reqFlows, resFlows) {
		fail("FLOW-ORDER:response-not-reverse", fmt.Sprintf("user flows ran %v on the request and %v on the response", reqFlows, resFlows))
		return
	}
	if !rev(sysReq, sysRes) {
		fail("SYSTEM-FLOW-ORDER:response-not-reverse", fmt.Sprintf("system flows ran %v on the request and %v on the response", sysReq, sysRes))
	}
}

// quotaOf: SystemFlow_<quota>_SYSTEM_FLOW_START / _END -> <quota>
func quotaOf(flow string) string {
	f := strings.TrimPrefix(flow, "SystemFlow_")
	f = strings.TrimSuffix(f, "_SYSTEM_FLOW_START")
	return strings.TrimSuffix(f, "_SYSTEM_FLOW_END")
}

func names(fl []flowSpec) (out []string) {
	for _, f := range fl {
		out = append(out, f.name)
	}
	return
}

// ---- family D: references to other flows ---------------------------------------------------
//
// Flow B (on a URL the transaction does not match) is referenced by flow A, the flow the
// transaction matches, in the three ways the schema offers:
//   D1 request : A starts "from flow B at end -> P1": B's request graph runs first and every
//                path of it that reaches the stream end continues with P1;
//   D2 request : "P1[a] -> flow B at start": after P1 outputs a, B's request graph runs;
//   D3 response: "R1 -> flow B at start": after R1, B's response graph runs.
// B's graph is every forward graph over <=2 probes; every output choice is run.

func shift(g fg.Graph, by int, endTo int) [][]fg.Edge {
	out := make([][]fg.Edge, len(g.Edges))
	for i, es := range g.Edges {
		for _, e := range es {
			t := e.To
			if t >= 0 {
				t += by
			} else {
				t = endTo
			}
			out[i] = append(out[i], fg.Edge{Cond: e.Cond, To: t})
		}
	}
	return out
}

func flowRefYAML(kind string, b fg.Graph) (aYAML, bYAML string) {
	end := "        stream:\n          name: globalStream\n          at: end\n"
	start := "        stream:\n          name: globalStream\n          at: start\n"
	proc := func(n, cond string) string {
		s := "        processor:\n          name: " + n + "\n"
		if cond != "" {
			s += "          condition: " + cond + "\n"
		}
		return s
	}
	flowRef := func(at string) string { return "        flow:\n          name: fb\n          at: " + at + "\n" }
	minimalReq := "    - from:\n" + start + "      to:\n" + proc("Q", "") + "    - from:\n" + proc("Q", "") + "      to:\n" + end
	minimalRes := "    - from:\n" + start + "      to:\n" + end
	procs := func(keys ...string) string {
		s := "processors:\n"
		for _, k := range keys {
			s += "  " + k + ":\n    processor: VerifProbe\n"
		}
		return s
	}
	head := func(name, url string) string { return "name: " + name + "\nfilter:\n  url: " + url + "\n" }
	switch kind {
	case "D1":
		aYAML = head("fa", "h.com/*") + procs("P1") + "flow:\n  request:\n" +
			"    - from:\n" + flowRef("end") + "      to:\n" + proc("P1", "") +
			"    - from:\n" + proc("P1", "") + "      to:\n" + end + "  response:\n" + minimalRes
		bYAML = head("fb", "other.org/*") + procs(b.Nodes...) + "flow:\n  request:\n" + b.Connections() + "  response:\n" + minimalRes
	case "D2":
		aYAML = head("fa", "h.com/*") + procs("P1") + "flow:\n  request:\n" +
			"    - from:\n" + start + "      to:\n" + proc("P1", "") +
			"    - from:\n" + proc("P1", "a") + "      to:\n" + flowRef("start") +
			"    - from:\n" + proc("P1", "") + "      to:\n" + end + "  response:\n" + minimalRes
		bYAML = head("fb", "other.org/*") + procs(b.Nodes...) + "flow:\n  request:\n" + b.Connections() + "  response:\n" + minimalRes
	default: // D3
		aYAML = head("fa", "h.com/*") + procs("Q", "R1") + "flow:\n  request:\n" + minimalReq + "  response:\n" +
			"    - from:\n" + start + "      to:\n" + proc("R1", "") +
			"    - from:\n" + proc("R1", "") + "      to:\n" + flowRef("start")
		bYAML = head("fb", "other.org/*") + procs(append([]string{"QB"}, b.Nodes...)...) + "flow:\n  request:\n" +
			"    - from:\n" + start + "      to:\n" + proc("QB", "") + "    - from:\n" + proc("QB", "") + "      to:\n" + end +
			"  response:\n" + b.Connections()
	}
	return
}

func familyD(t *testing.T, r *mc.Run, conds []string) {
	idx := 1 << 22
	for _, kind := range []string{"D1", "D2", "D3"} {
		for n := 1; n <= 2; n++ {
			keys := []string{"X1", "X2"}[:n]
			fg.Forward(keys, conds, 2, func(b fg.Graph) {
				idx++
				if !r.Mine(idx) {
					return
				}
				aY, bY := flowRefYAML(kind, b)
				files := eng.Files{Flows: map[string]string{"fa.yaml": aY, "fb.yaml": bY}}
				s, _, err := load(files)
				if err != nil {
					r.Add("rejected_graphs", 1)
					r.Outcome("D rejected: " + firstWords(err.Error()))
					if os.Getenv("VERIF_DEBUG") != "" {
						fmt.Printf("DREJ %s {%s}: %v\n", kind, b, err)
					}
					return
				}
				r.Add("graphs", 1)
				// combined reference graph
				var ref fg.Graph
				dir := "req"
				switch kind {
				case "D1": // B's nodes, then P1; B's stream-end connections lead to P1
					ref = fg.Graph{Nodes: append(append([]string{}, b.Nodes...), "P1"), Root: b.Root}
					ref.Edges = append(shift(b, 0, len(b.Nodes)), []fg.Edge{{Cond: "", To: fg.End}})
				case "D2":
					ref = fg.Graph{Nodes: append([]string{"P1"}, b.Nodes...), Root: 0}
					ref.Edges = append([][]fg.Edge{{{Cond: "a", To: 1 + b.Root}, {Cond: "", To: fg.End}}}, shift(b, 1, fg.End)...)
				default:
					dir = "res"
					ref = fg.Graph{Nodes: append([]string{"R1"}, b.Nodes...), Root: 0}
					ref.Edges = append([][]fg.Edge{{{Cond: "", To: 1 + b.Root}}}, shift(b, 1, fg.End)...)
				}
				outs := outputs(conds, false)
				tuples(outs, len(ref.Nodes), func(choice []string) {
					plan := map[string]string{}
					want := map[string]string{}
					for i, c := range choice {
						// the walk of flow A reports every processor under flow A's name
						plan[dir+":fa/"+ref.Nodes[i]] = c
						want[ref.Nodes[i]] = c
					}
					out := func(_, key string) string { return want[key] }
					var expect []string
					if dir == "req" {
						expect, _ = fg.WalkReq(ref, out)
					} else {
						expect = fg.WalkRes(ref, out, -1)
					}
					for _, cur := range []bool{false, true} {
						probe.ReportCurrentType = cur
						evs, v, rv := runTxn(s, "h.com/x", plan, true)
						r.Add("evaluations", 1)
						var got []string
						for _, e := range evs {
							if e.Dir == dir && e.Key != "Q" && e.Key != "QB" {
								got = append(got, e.Key)
							}
						}
						r.NonTrivial(fmt.Sprintf("%s|%s|%v", kind, b, plan))
						r.Outcome(fmt.Sprintf("%s events=%d", kind, len(got)))
						if v.Err != "" || rv.Err != "" {
							r.Violation("ERROR:flow-reference", fmt.Sprintf("family %s referenced graph {%s} input %v: engine error %s%s", kind, b, plan, v.Err, rv.Err),
								replay{cur, kind, files.Flows, nil, plan, "h.com/x", expect, probeStrings(evs)})
							break
						}
						if !eq(expect, got) {
							r.Violation("FLOW-REFERENCE:"+kind+":"+classify(expect, got), fmt.Sprintf("family %s (flow fa references flow fb {%s}) input %v: expected %v, observed %v", kind, b, plan, expect, got),
								replay{cur, kind, files.Flows, nil, plan, "h.com/x", expect, probeStrings(evs)})
							break
						}
					}
					probe.ReportCurrentType = false
				})
			})
		}
	}
}

// familyD4: a processor of a REFERENCED flow answers the request itself.  Flow fa (matched by
// the transaction) references flow fb in both directions:
//
//	fa.request : from flow fb at end -> P1 -> end        fa.response: start -> R1 ; R1 -> flow fb at start
//	fb.request : start -> X1 ; X1[a] -> end              fb.response: start -> Y0 -> end ; X1 -> Y1 ; Y1 -> end
//
// When X1 answers early the response path continues from X1's response connection (Y1),
// not from the response entry point.
func familyD4(t *testing.T, r *mc.Run) {
	if sh, _ := r.Shard(); sh != 1%16 {
		return
	}
	end := "        stream:\n          name: globalStream\n          at: end\n"
	start := "        stream:\n          name: globalStream\n          at: start\n"
	proc := func(n, cond string) string {
		s := "        processor:\n          name: " + n + "\n"
		if cond != "" {
			s += "          condition: " + cond + "\n"
		}
		return s
	}
	ref := func(at string) string { return "        flow:\n          name: fb\n          at: " + at + "\n" }
	conn := func(from, to string) string { return "    - from:\n" + from + "      to:\n" + to }
	procs := func(keys ...string) string {
		s := "processors:\n"
		for _, k := range keys {
			s += "  " + k + ":\n    processor: VerifProbe\n"
		}
		return s
	}
	fa := "name: fa\nfilter:\n  url: h.com/*\n" + procs("P1", "R1") + "flow:\n  request:\n" +
		conn(ref("end"), proc("P1", "")) + conn(proc("P1", ""), end) +
		"  response:\n" + conn(start, proc("R1", "")) + conn(proc("R1", ""), ref("start"))
	fb := "name: fb\nfilter:\n  url: other.org/*\n" + procs("X1", "Y0", "Y1") + "flow:\n  request:\n" +
		conn(start, proc("X1", "")) + conn(proc("X1", "a"), end) +
		"  response:\n" + conn(start, proc("Y0", "")) + conn(proc("Y0", ""), end) + conn(proc("X1", ""), proc("Y1", "")) + conn(proc("Y1", ""), end)
	files := eng.Files{Flows: map[string]string{"fa.yaml": fa, "fb.yaml": fb}}
	s, _, err := load(files)
	if err != nil {
		r.Add("rejected_graphs", 1)
		r.Outcome("D4 rejected: " + firstWords(err.Error()))
		return
	}
	r.Add("graphs", 1)
	for _, x1 := range []string{"early", "a", ""} {
		plan := map[string]string{"req:fa/X1": x1}
		var wantReq, wantRes []string
		switch x1 {
		case "early":
			wantReq, wantRes = []string{"X1"}, []string{"Y1"}
		case "a":
			wantReq, wantRes = []string{"X1", "P1"}, []string{"R1", "Y0"}
		default:
			wantReq, wantRes = []string{"X1"}, []string{"R1", "Y0"}
		}
		for _, cur := range []bool{false, true} {
			probe.ReportCurrentType = cur
			evs, v, rv := runTxn(s, "h.com/x", plan, true)
			r.Add("evaluations", 1)
			var gotReq, gotRes []string
			for _, e := range evs {
				if e.Dir == "req" {
					gotReq = append(gotReq, e.Key)
				} else {
					gotRes = append(gotRes, e.Key)
				}
			}
			r.NonTrivial(fmt.Sprintf("D4|%s|%v", x1, cur))
			r.Outcome(fmt.Sprintf("D4 x1=%q req=%v res=%v", x1, gotReq, gotRes))
			if v.Err != "" || rv.Err != "" || !eq(wantReq, gotReq) || !eq(wantRes, gotRes) {
				clause := "FLOW-REFERENCE:D4"
				if x1 == "early" {
					clause += ":after-early-response"
				}
				r.Violation(clause, fmt.Sprintf("family D4 (a processor of the referenced flow fb, X1, outputs %q): expected request %v response %v, observed request %v response %v %s%s", x1, wantReq, wantRes, gotReq, gotRes, v.Err, rv.Err),
					replay{cur, "D4", files.Flows, nil, plan, "h.com/x", append(append([]string{}, wantReq...), wantRes...), probeStrings(evs)})
				break
			}
		}
		probe.ReportCurrentType = false
	}
}

// familyD5: TWO flows (fa on h.com/*, fc on g.com/*) reference the same third flow fb, each in
// the way of D1 / D2 / D3.  Each transaction runs the referenced graph and then continues in
// the flow that matched it, never in the other referencing flow (whose copy of fb's graph was
// built in the same load).
func familyD5(t *testing.T, r *mc.Run, conds []string) {
	idx := 1 << 23
	for _, kind := range []string{"D1", "D2", "D3"} {
		for n := 1; n <= 2; n++ {
			keys := []string{"X1", "X2"}[:n]
			fg.Forward(keys, conds, 2, func(b fg.Graph) {
				idx++
				if !r.Mine(idx) {
					return
				}
				aY, bY := flowRefYAML(kind, b)
				cY := strings.NewReplacer("name: fa\n", "name: fc\n", "h.com/*", "g.com/*", "P1", "P2", "R1", "R2").Replace(aY)
				files := eng.Files{Flows: map[string]string{"fa.yaml": aY, "fb.yaml": bY, "fc.yaml": cY}}
				s, _, err := load(files)
				if err != nil {
					r.Add("rejected_graphs", 1)
					r.Outcome("D5 rejected: " + firstWords(err.Error()))
					return
				}
				r.Add("graphs", 1)
				for _, who := range []struct{ flow, url, p, rr string }{{"fa", "h.com/x", "P1", "R1"}, {"fc", "g.com/x", "P2", "R2"}} {
					var ref fg.Graph
					dir := "req"
					switch kind {
					case "D1":
						ref = fg.Graph{Nodes: append(append([]string{}, b.Nodes...), who.p), Root: b.Root}
						ref.Edges = append(shift(b, 0, len(b.Nodes)), []fg.Edge{{Cond: "", To: fg.End}})
					case "D2":
						ref = fg.Graph{Nodes: append([]string{who.p}, b.Nodes...), Root: 0}
						ref.Edges = append([][]fg.Edge{{{Cond: "a", To: 1 + b.Root}, {Cond: "", To: fg.End}}}, shift(b, 1, fg.End)...)
					default:
						dir = "res"
						ref = fg.Graph{Nodes: append([]string{who.rr}, b.Nodes...), Root: 0}
						ref.Edges = append([][]fg.Edge{{{Cond: "", To: 1 + b.Root}}}, shift(b, 1, fg.End)...)
					}
					tuples(outputs(conds, false), len(ref.Nodes), func(choice []string) {
						plan := map[string]string{}
						want := map[string]string{}
						for i, c := range choice {
							// whichever flow name the walk reports the referenced processors under,
							// they get the same output
							for _, fl := range []string{"fa", "fc", "fb"} {
								plan[dir+":"+fl+"/"+ref.Nodes[i]] = c
							}
							want[ref.Nodes[i]] = c
						}
						out := func(_, key string) string { return want[key] }
						var expect []string
						if dir == "req" {
							expect, _ = fg.WalkReq(ref, out)
						} else {
							expect = fg.WalkRes(ref, out, -1)
						}
						evs, v, rv := runTxn(s, who.url, plan, true)
						r.Add("evaluations", 1)
						var got []string
						for _, e := range evs {
							if e.Dir == dir && e.Key != "Q" && e.Key != "QB" {
								got = append(got, e.Key)
							}
						}
						r.NonTrivial(fmt.Sprintf("D5|%s|%s|%s|%v", kind, who.flow, b, choice))
						r.Outcome(fmt.Sprintf("D5 %s events=%d", kind, len(got)))
						if v.Err != "" || rv.Err != "" || !eq(expect, got) {
							r.Violation("FLOW-REFERENCE:two-flows-one-referenced-flow:"+kind, fmt.Sprintf("family D5 %s (flows fa on h.com/* and fc on g.com/* both reference flow fb {%s}) transaction %s input %v: expected %v, observed %v %s%s", kind, b, who.url, choice, expect, got, v.Err, rv.Err),
								replay{false, "D5-" + kind, files.Flows, nil, plan, who.url, expect, probeStrings(evs)})
						}
					})
				}
			})
		}
	}
}
