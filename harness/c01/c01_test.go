// C01 — fixed-window quotas never admit more than their limit per window.
// Engines: seqx history BFS over request / clock histories through a real engine
// (streams.Stream built from generated quota + flow YAML: quota system flows, Limiter,
// GenerateResponse) in virtual time, against a per-(quota, group) window reference;
// schedx for concurrent requests on one key / parent+child.
package c01

import (
	"fmt"
	"os"
	"regexp"
	"sort"
	"strings"
	"testing"
	"testing/synctest"
	"time"

	"lunar/engine/streams"
	"verifharness/eng"
	"verifharness/mc"
)

type cfg struct {
	Name       string
	Max        int64 // quota P
	W          int   // seconds
	Group      bool  // P grouped by header x-g
	Child      bool  // child quota C under P (internal_limits), filter h.com/c/*
	ChildMax   int64
	ChildGroup bool
	ChildPct   int64 // allocation_percentage instead of an own fixed window (0 = own)
	BothLimit  bool  // requests to the child URL pass the child's AND the parent's limiter
	// Custom: P is a fixed_window_custom_counter quota (a request costs the number of units in
	// its x-cost header; max is in units)
	Custom bool
	// Prefill: before the history starts, this many OTHER header groups (o0, o1, ...) have
	// each sent one request: a start state with many groups; the alphabet then also has a
	// request of a group never seen before
	Prefill int
	// Grand: a third level - quota G (max GrandMax) below the child C; requests to the
	// grandchild URL are charged to G, C and P
	Grand    bool
	GrandMax int64
	// GrandPct: the grandchild is an allocation_percentage of the child (itself possibly a
	// percentage of the parent) instead of an own fixed window
	GrandPct int64
}

func quotaYAML(c cfg) string {
	var sb strings.Builder
	kind := "fixed_window"
	if c.Custom {
		kind = "fixed_window_custom_counter"
	}
	fmt.Fprintf(&sb, "quotas:\n  - id: P\n    filter:\n      url: h.com/*\n    strategy:\n      %s:\n        max: %d\n        interval: %d\n        interval_unit: second\n", kind, c.Max, c.W)
	if c.Custom {
		sb.WriteString("        counter_value_path: $.request.headers[\"x-cost\"]\n")
	}
	if c.Group {
		sb.WriteString("        group_by_header: x-g\n")
	}
	if c.Child {
		sb.WriteString("internal_limits:\n  - id: C\n    parent_id: P\n    filter:\n      url: h.com/c/*\n    strategy:\n")
		if c.ChildPct > 0 {
			fmt.Fprintf(&sb, "      allocation_percentage: %d\n", c.ChildPct)
		} else {
			fmt.Fprintf(&sb, "      fixed_window:\n        max: %d\n        interval: %d\n        interval_unit: second\n", c.ChildMax, c.W)
			if c.ChildGroup {
				sb.WriteString("        group_by_header: x-g\n")
			}
		}
		if c.Grand && c.GrandPct > 0 {
			fmt.Fprintf(&sb, "  - id: G\n    parent_id: C\n    filter:\n      url: h.com/c/g/*\n    strategy:\n      allocation_percentage: %d\n", c.GrandPct)
		} else if c.Grand {
			fmt.Fprintf(&sb, "  - id: G\n    parent_id: C\n    filter:\n      url: h.com/c/g/*\n    strategy:\n      fixed_window:\n        max: %d\n        interval: %d\n        interval_unit: second\n", c.GrandMax, c.W)
		}
	}
	return sb.String()
}

func flowYAML(name, url, quota string) string {
	return fmt.Sprintf(`name: %s
filter:
  url: %s
processors:
  L%s:
    processor: Limiter
    parameters:
      - key: quota_id
        value: %s
  G%s:
    processor: GenerateResponse
    parameters:
      - key: status
        value: 429
flow:
  request:
    - from:
        stream:
          name: globalStream
          at: start
      to:
        processor:
          name: L%s
    - from:
        processor:
          name: L%s
          condition: above_limit
      to:
        processor:
          name: G%s
    - from:
        processor:
          name: L%s
          condition: below_limit
      to:
        stream:
          name: globalStream
          at: end
  response:
    - from:
        processor:
          name: G%s
      to:
        stream:
          name: globalStream
          at: end
`, name, url, name, quota, name, name, name, name, name, name)
}

func files(c cfg) eng.Files {
	f := eng.Files{Flows: map[string]string{}, Quotas: map[string]string{"q.yaml": quotaYAML(c)}}
	switch {
	case c.Grand:
		f.Flows["fg.yaml"] = flowYAML("fg", "h.com/c/g/*", "G")
		f.Flows["fc.yaml"] = flowYAML("fc", "h.com/c/x/*", "C")
		f.Flows["fp.yaml"] = flowYAML("fp", "h.com/p/*", "P")
	case !c.Child:
		f.Flows["fp.yaml"] = flowYAML("fp", "h.com/*", "P")
	case c.BothLimit:
		f.Flows["fc.yaml"] = flowYAML("fc", "h.com/c/*", "C")
		f.Flows["fp.yaml"] = flowYAML("fp", "h.com/*", "P")
	default:
		f.Flows["fc.yaml"] = flowYAML("fc", "h.com/c/*", "C")
		f.Flows["fp.yaml"] = flowYAML("fp", "h.com/p/*", "P")
	}
	return f
}

type event struct {
	tick   time.Duration
	group  string // "a", "b", "" (header absent)
	target string // "c" child URL, "p" parent-only URL
	cost   int64  // custom-counter configurations: units this request costs (0 = plain request)
}

func (e event) String() string {
	if e.tick > 0 {
		return fmt.Sprintf("tick(%v)", e.tick)
	}
	g := e.group
	if g == "" {
		g = "-"
	}
	if e.cost > 0 {
		return fmt.Sprintf("req(%s,%s,cost=%d)", e.target, g, e.cost)
	}
	return fmt.Sprintf("req(%s,%s)", e.target, g)
}

func alphabet(c cfg) []event {
	var ev []event
	groups := []string{""}
	if c.Group || c.ChildGroup {
		groups = []string{"a", "b", ""}
	}
	targets := []string{"p"}
	if c.Child {
		targets = []string{"c", "p"}
	}
	if c.Grand {
		targets = []string{"g", "c", "p"}
	}
	for _, t := range targets {
		for _, g := range groups {
			if c.Custom {
				// unit cost, and a request that alone costs more than the whole window
				ev = append(ev, event{group: g, target: t, cost: 1}, event{group: g, target: t, cost: c.Max + 1})
				continue
			}
			ev = append(ev, event{group: g, target: t})
		}
	}
	if c.Prefill > 0 {
		ev = append(ev, event{group: freshGroup, target: "p"})
	}
	ev = append(ev, event{tick: time.Second}, event{tick: time.Duration(c.W) * time.Second})
	return ev
}

// freshGroup stands for a header value no earlier request carried (n1, n2, ... in order of use)
const freshGroup = "<new>"

// window reference: opens at the first charged request at or after the previous window's
// end and lasts W.
type win struct {
	start    time.Time
	count    int64
	admitted int64
	open     bool
}

type model struct {
	c      cfg
	alpha  []event
	s      *streams.Stream
	root   string
	wins   map[string]*win
	n      int
	refuse int
	fresh  int
}

func newModel(c cfg) *model {
	s, root, err := eng.NewStream(files(c))
	if err != nil {
		panic("engine did not load: " + err.Error())
	}
	m := &model{c: c, alpha: alphabet(c), s: s, root: root, wins: map[string]*win{}}
	for i := 0; i < c.Prefill; i++ {
		if fail := m.apply(event{group: fmt.Sprintf("o%d", i), target: "p"}); fail != "" {
			panic("prefill: " + fail)
		}
	}
	return m
}

func (m *model) close() { eng.Remove(m.root) }

func (m *model) charge(key string, max int64, now time.Time) bool {
	return m.chargeN(key, max, now, 1)
}

func (m *model) chargeN(key string, max int64, now time.Time, cost int64) bool {
	w := m.wins[key]
	if w == nil {
		w = &win{}
		m.wins[key] = w
	}
	if !w.open || now.Sub(w.start) >= time.Duration(m.c.W)*time.Second {
		if cost > max {
			// a request that can never fit is refused without opening a window (the statement
			// does not say which instant anchors a window; this is what the engine does)
			w.open = false
			return false
		}
		w.open, w.start, w.count, w.admitted = true, now, 0, 0
	}
	if w.count+cost > max {
		return false
	}
	w.count += cost
	return true
}

func (m *model) childMax() int64 {
	if m.c.ChildPct > 0 {
		return (m.c.Max*m.c.ChildPct + 99) / 100
	}
	return m.c.ChildMax
}

func (m *model) grandMax() int64 {
	if m.c.GrandPct > 0 {
		return (m.childMax()*m.c.GrandPct + 99) / 100
	}
	return m.c.GrandMax
}

func (m *model) Apply(ei int) string { return m.apply(m.alpha[ei]) }

func (m *model) apply(e event) string {
	if e.group == freshGroup {
		m.fresh++
		e.group = fmt.Sprintf("n%d", m.fresh)
	}
	if e.tick > 0 {
		time.Sleep(e.tick)
		return ""
	}
	m.n++
	now := time.Now()
	hs := map[string]string{}
	if e.group != "" {
		hs["x-g"] = e.group
	}
	cost := int64(1)
	if e.cost > 0 {
		cost = e.cost
		hs["x-cost"] = fmt.Sprint(e.cost)
	}
	url := "h.com/p/1"
	if e.target == "c" {
		url = "h.com/c/1"
		if m.c.Grand {
			url = "h.com/c/x/1"
		}
	}
	if e.target == "g" {
		url = "h.com/c/g/1"
	}
	v := eng.OnRequest(m.s, eng.Req{ID: fmt.Sprintf("r%d", m.n), URL: url, Headers: hs})
	if v.Err != "" {
		return "ERROR " + v.Err
	}
	refused := v.Early
	if refused && v.Status != 429 {
		return fmt.Sprintf("STATUS refusal carries status %d", v.Status)
	}
	// reference
	gOf := func(grouped bool) string {
		if grouped && e.group != "" {
			return e.group
		}
		return "default"
	}
	pKey := "P_" + gOf(m.c.Group)
	var keys []string
	okAll := true
	// Quotas referenced by a Limiter are charged by that Limiter (their system flows are
	// switched to no-ops): child first, the parent only if the child had room.
	if e.target == "g" {
		// three levels: the grandchild first, then each ancestor only if the level below had room
		keys = append(keys, "G_default")
		if !m.charge("G_default", m.grandMax(), now) {
			okAll = false
		} else {
			keys = append(keys, "C_default")
			if !m.charge("C_default", m.childMax(), now) {
				okAll = false
			}
		}
	} else if e.target == "c" && m.c.BothLimit {
		// two flows match the child URL: the flow on the broader pattern (the parent's
		// Limiter) runs first and, when the parent is full, answers before the child's
		// Limiter is reached; otherwise the child's Limiter follows
		keys = append(keys, pKey)
		if !m.chargeN(pKey, m.c.Max, now, cost) {
			okAll = false
		} else {
			cKey := "C_" + gOf(m.c.ChildGroup)
			keys = append(keys, cKey)
			if !m.charge(cKey, m.childMax(), now) {
				okAll = false
			}
		}
	} else if e.target == "c" {
		cGrouped := m.c.ChildGroup
		if m.c.ChildPct > 0 {
			cGrouped = m.c.Group // a percentage child shares the parent's grouping
		}
		cKey := "C_" + gOf(cGrouped)
		keys = append(keys, cKey)
		if !m.charge(cKey, m.childMax(), now) {
			okAll = false
		}
	}
	if okAll && !(e.target == "c" && m.c.BothLimit) {
		keys = append(keys, pKey)
		if !m.chargeN(pKey, m.c.Max, now, cost) {
			okAll = false
		}
	}
	want := !okAll
	if refused != want {
		var st []string
		for _, k := range keys {
			w := m.wins[k]
			st = append(st, fmt.Sprintf("%s=%d (window age %v)", k, w.count, now.Sub(w.start)))
		}
		if refused {
			m.refuse++
			return fmt.Sprintf("SPURIOUS-REFUSAL %s was refused although neither its quota nor an ancestor was full: %v", e, st)
		}
		return fmt.Sprintf("OVER-ADMISSION %s was admitted although a quota on its path was full: %v", e, st)
	}
	if !refused {
		for _, k := range keys {
			w := m.wins[k]
			w.admitted += cost
			max := m.c.Max
			if strings.HasPrefix(k, "C_") {
				max = m.childMax()
			}
			if strings.HasPrefix(k, "G_") {
				max = m.grandMax()
			}
			if w.admitted > max {
				return fmt.Sprintf("BOUND quota %s let %d requests through in one window, max %d", k, w.admitted, max)
			}
		}
	}
	return ""
}

func (m *model) Key() string {
	now := time.Now()
	var p []string
	for k, w := range m.wins {
		age := now.Sub(w.start)
		if !w.open || age >= time.Duration(m.c.W)*time.Second {
			continue
		}
		p = append(p, fmt.Sprintf("%s:%d/%d@%v", k, w.count, w.admitted, age))
	}
	sort.Strings(p)
	key := strings.Join(p, ",") + "|" + streams.VerifQuotaDump(m.s, now)
	if m.c.Prefill > 0 {
		key = collapseOthers(key)
	}
	return key
}

var otherGroupRe = regexp.MustCompile(`(P_)?o\d+([:=][^,\]|]*)`)

// collapseOthers replaces the entries of the pre-filled groups o0, o1, ... by one entry per
// distinct value with its multiplicity (the groups are interchangeable: no event of the
// alphabet names one of them).
func collapseOthers(key string) string {
	count := map[string]int{}
	out := otherGroupRe.ReplaceAllStringFunc(key, func(m string) string {
		sub := otherGroupRe.FindStringSubmatch(m)
		count[sub[1]+"o*"+sub[2]]++
		return "\x00"
	})
	out = strings.ReplaceAll(strings.ReplaceAll(out, "\x00,", ""), "\x00", "")
	var cs []string
	for k, n := range count {
		cs = append(cs, fmt.Sprintf("%sx%d", k, n))
	}
	sort.Strings(cs)
	return out + "|others:" + strings.Join(cs, ";")
}

func configs(thorough bool) []cfg {
	cs := []cfg{
		{Name: "flat max1 W1", Max: 1, W: 1},
		{Name: "flat max2 W2", Max: 2, W: 2},
		{Name: "flat grouped max1 W2", Max: 1, W: 2, Group: true},
		{Name: "parent max2 + child max1", Max: 2, W: 2, Child: true, ChildMax: 1},
		{Name: "grouped parent max2 + ungrouped child max1", Max: 2, W: 2, Group: true, Child: true, ChildMax: 1},
		{Name: "ungrouped parent max2 + grouped child max1", Max: 2, W: 2, Child: true, ChildMax: 1, ChildGroup: true},
		{Name: "parent max4 + child 50%", Max: 4, W: 2, Child: true, ChildPct: 50},
		{Name: "parent max2 + child max1, both limiters on child URL", Max: 2, W: 2, Child: true, ChildMax: 1, BothLimit: true},
		{Name: "custom counter max2 W2 (costs 1 and 3)", Max: 2, W: 2, Custom: true},
		// three levels
		{Name: "parent max3 + child max2 + grandchild max1", Max: 3, W: 2, Child: true, ChildMax: 2, Grand: true, GrandMax: 1},
		{Name: "parent max4 + child 50% + grandchild 50% of the child", Max: 4, W: 2, Child: true, ChildPct: 50, Grand: true, GrandPct: 50},
		// a non-initial start state: 1100 other groups have been seen (more than any plausible
		// internal bound on tracked groups up to 1024)
		{Name: "flat grouped max1 W2, 1100 other groups seen", Max: 1, W: 2, Group: true, Prefill: 1100},
	}
	if thorough {
		cs = append(cs, cfg{Name: "flat max2 W3", Max: 2, W: 3},
			cfg{Name: "grouped parent max3 + grouped child max2", Max: 3, W: 2, Group: true, Child: true, ChildMax: 2, ChildGroup: true},
			cfg{Name: "grouped parent max2 + child 50%", Max: 2, W: 2, Group: true, Child: true, ChildPct: 50})
	}
	return cs
}

func TestCheck(t *testing.T) {
	r := mc.New("C01", "model_checking")
	cs := configs(r.Thorough())
	if os.Getenv("VERIF_TRACE_SCENARIO") != "" {
		schedules(t, r)
		return
	}
	if f := mc.ReplayFile(); f != "" {
		var rp mc.BFSReplay
		if err := mc.LoadReplay(f, &rp); err != nil || rp.Model == "" {
			fmt.Println("replay: schedule findings carry their trace in the replay file")
			return
		}
		for _, c := range configs(true) {
			if c.Name != rp.Model {
				continue
			}
			synctest.Test(t, func(t *testing.T) {
				m := newModel(c)
				defer m.close()
				for i, e := range rp.Path {
					fail := m.Apply(e)
					fmt.Printf("%2d %-12s -> %q  %s\n", i, m.alpha[e], fail, m.Key())
					if fail != "" {
						t.Fail()
					}
				}
				time.Sleep(time.Hour)
			})
		}
		return
	}
	depth := mc.Pick(r, 5, 6)
	r.Rule = fmt.Sprintf("explicit-state BFS to depth %d (flat configurations: +1) over histories of {req(target child|parent-only URL, group a|b|absent), tick(1s), tick(W)} for %d quota configurations (max, window, grouping header on parent and/or child, parent/child hierarchy with own limit or allocation percentage) through a real engine loaded from generated YAML; plus all schedules (<=2 preemptions) of concurrent requests on one key and on parent+child; distinct = state keys (reference windows + quota dump)", depth, len(cs))
	r.Assume("arrival instants are whole seconds apart (the implementation stores window starts with second granularity)",
		"a quota is 'full' when the requests charged to it in the current window reach max; a request is charged to its own quota first and to the ancestors only if the own quota had room")
	if r.Parallel(t, 16) {
		r.Finish(t)
		return
	}
	shard := 0
	for _, c := range cs {
		al := alphabet(c)
		d := depth
		if !c.Child {
			d++
		}
		if c.Prefill > 0 {
			d = mc.Pick(r, 5, 6)
		}
		for first := range al {
			shard++
			if !r.Mine(shard) {
				continue
			}
			st, tr := mc.BFS(r, mc.BFSOpts{Name: c.Name, NEvents: len(al), MaxDepth: d, Prefix: []int{first}, CheckPrefix: true,
				EvName: func(e int) string { return al[e].String() },
				Classify: func(fail string, path []int) string {
					clause := strings.SplitN(fail, " ", 2)[0]
					if os.Getenv("VERIF_DEV") != "" {
						clause += ":" + c.Name
					}
					if c.BothLimit {
						clause += ":child-and-parent-limiter-on-one-request"
					}
					return clause
				},
				Run: func(body func(mc.Model)) {
					synctest.Test(t, func(t *testing.T) {
						m := newModel(c)
						defer m.close()
						body(m)
						time.Sleep(time.Hour)
						synctest.Wait()
					})
				}})
			r.NonTrivial(fmt.Sprintf("%s first=%s states=%d", c.Name, al[first], st))
			r.Outcome(fmt.Sprintf("%s states=%d", c.Name, st))
			if first == 0 {
				r.Sample(map[string]any{"config": c.Name, "first_event": al[first].String(), "states": st, "transitions": tr})
			}
		}
	}
	r.Add("traces_validated_against_impl", r.Counters["transitions"])
	schedules(t, r)
	r.Finish(t)
}

func schedules(t *testing.T, r *mc.Run) {
	pre := mc.Pick(r, 2, 3)
	traceOnly := os.Getenv("VERIF_TRACE_SCENARIO")
	type res struct{ admitted map[string]int }
	scen := func(name string, c cfg, reqs []event, limit map[string]int) {
		o := &mc.SchedOpts{Name: name, MaxPreempt: pre, MaxT: 0,
			Focus: []string{"lunar/engine/streams/resources/quota", "lunar/engine/streams/lunar-context"},
			Body: func(x *mc.Exec) {
				m := newModel(c)
				x.Vals["m"] = m
				rs := &res{admitted: map[string]int{}}
				x.Vals["res"] = rs
				for i, e := range reqs {
					nm := fmt.Sprintf("T%d", i)
					x.Go(nm, func() {
						hs := map[string]string{}
						if e.group != "" {
							hs["x-g"] = e.group
						}
						url := "h.com/p/1"
						if e.target == "c" {
							url = "h.com/c/1"
						}
						v := eng.OnRequest(m.s, eng.Req{ID: nm, URL: url, Headers: hs})
						if !v.Early && v.Err == "" {
							rs.admitted["P"]++
							if e.target == "c" {
								rs.admitted["C"]++
							}
						}
						x.Logf("%s %s -> %s", nm, e, v)
					})
				}
			},
			Teardown: func(x *mc.Exec) { x.Vals["m"].(*model).close() },
			Check: func(x *mc.Exec) (string, string) {
				rs := x.Vals["res"].(*res)
				for q, lim := range limit {
					if rs.admitted[q] > lim {
						return "BOUND:concurrent", fmt.Sprintf("quota %s let %d concurrent requests through in one window, max %d", q, rs.admitted[q], lim)
					}
				}
				return "", ""
			}}
		if traceOnly != "" {
			if traceOnly == name {
				mc.ReplaySchedule(t, o, nil)
			}
			return
		}
		mc.Explore(t, r, o)
	}
	scen("two-requests-one-key", cfg{Name: "s0", Max: 1, W: 2}, []event{{target: "p"}, {target: "p"}}, map[string]int{"P": 1})
	scen("child-and-parent-request-share-parent", cfg{Name: "s1", Max: 1, W: 2, Child: true, ChildMax: 1}, []event{{target: "c"}, {target: "p"}}, map[string]int{"P": 1, "C": 1})
	if r.Thorough() {
		scen("three-requests-one-key", cfg{Name: "s2", Max: 2, W: 2}, []event{{target: "p"}, {target: "p"}, {target: "p"}}, map[string]int{"P": 2})
		scen("child-and-parent-requests", cfg{Name: "s3", Max: 2, W: 2, Child: true, ChildMax: 1}, []event{{target: "c"}, {target: "c"}, {target: "p"}}, map[string]int{"P": 2, "C": 1})
	}
}
