package c07

// Policy-mode remedy chain: the real runner.runOnRequest with real remedy plugins.  Every
// sequence of <= 4 remedies over {OAuth authentication (answers with a generated request), two
// API-key authentications with a conflicting header, fixed response 418, fixed response 503}
// is run as one chain; each remedy is also run alone to learn its own action.  The combined
// action must be the first early response if any remedy produced one, otherwise its header
// edits must be the union of all header edits with the later edit winning.

import (
	"fmt"
	"strings"
	"testing"

	"lunar/engine/actions"
	"lunar/engine/config"
	lunar_messages "lunar/engine/messages"
	"lunar/engine/runner"
	"lunar/engine/services"
	"lunar/engine/services/remedies"
	sharedConfig "lunar/shared-model/config"
	"lunar/toolkit-core/clock"
	"verifharness/mc"
)

type chainLetter struct {
	name string
	rem  config.ScopedRemedy
}

func chainAccounts() map[sharedConfig.AccountID]sharedConfig.Account {
	return map[sharedConfig.AccountID]sharedConfig.Account{
		"oauth": {Authentication: sharedConfig.Authentication{OAuth: &sharedConfig.OAuth{Tokens: []sharedConfig.Body{{Name: "client_secret", Value: "s"}}}}},
		"key1":  {Authentication: sharedConfig.Authentication{APIKey: &sharedConfig.APIKey{Tokens: []sharedConfig.Header{{Name: "x-api-key", Value: "k1"}, {Name: "authorization", Value: "A1"}}}}},
		"basic": {Authentication: sharedConfig.Authentication{Basic: &sharedConfig.BasicAuth{Username: "u", Password: "p"}}},
	}
}

func authRemedy(account string) config.ScopedRemedy {
	return config.ScopedRemedy{Method: "POST", NormalizedURL: "h.com/token",
		Remedy: &sharedConfig.Remedy{Name: "auth-" + account, Enabled: true,
			Config: sharedConfig.RemedyConfig{Authentication: &sharedConfig.AuthConfig{Account: sharedConfig.AccountID(account)}}}}
}

func fixedRemedy(status int) config.ScopedRemedy {
	return config.ScopedRemedy{Method: "POST", NormalizedURL: "h.com/token",
		Remedy: &sharedConfig.Remedy{Name: fmt.Sprintf("fixed-%d", status), Enabled: true,
			Config: sharedConfig.RemedyConfig{FixedResponse: &sharedConfig.FixedResponseConfig{StatusCode: status}}}}
}

func chainAlphabet() []chainLetter {
	return []chainLetter{
		{"oauth", authRemedy("oauth")}, {"apikey(x-api-key,authorization)", authRemedy("key1")}, {"basic(authorization)", authRemedy("basic")},
		{"fixed(418)", fixedRemedy(418)}, {"fixed(503)", fixedRemedy(503)},
	}
}

func chainArgs() lunar_messages.OnRequest {
	return lunar_messages.OnRequest{ID: "1", SequenceID: "1", Method: "POST", Scheme: "https", URL: "h.com/token", Path: "/token",
		Headers: map[string]string{"host": "h.com", "early-response": "true"}, Body: `{"grant_type":"client_credentials"}`}
}

func chainPlugins() *services.RemedyPlugins {
	return &services.RemedyPlugins{AuthPlugin: remedies.NewAuthPlugin(), FixedResponsePlugin: remedies.NewFixedResponsePlugin(clock.NewRealClock())}
}

func runChain(rs []config.ScopedRemedy) (actions.ReqLunarAction, error) {
	return runner.VerifRunOnRequest(chainArgs(), rs, chainPlugins(), chainAccounts())
}

type chainReplay struct {
	Family string   `json:"family"`
	Chain  []string `json:"remedy_chain"`
}

func chainFamily(t *testing.T, r *mc.Run) {
	al := chainAlphabet()
	// each remedy's own action
	own := make([]actions.ReqLunarAction, len(al))
	for i, l := range al {
		a, err := runChain([]config.ScopedRemedy{l.rem})
		if err != nil {
			t.Fatalf("remedy %s alone: %v", l.name, err)
		}
		own[i] = a
	}
	mc.Sequences(len(al), mc.Pick(r, 5, 6), func(idx []int) bool {
		if len(idx) == 0 {
			return true
		}
		var rs []config.ScopedRemedy
		var names []string
		for _, i := range idx {
			rs = append(rs, al[i].rem)
			names = append(names, al[i].name)
		}
		got, err := runChain(rs)
		r.Add("chain_evaluations", 1)
		desc := "policy-mode remedy chain [" + strings.Join(names, ", ") + "]"
		fail := func(clause, what string) {
			r.Violation("chain:"+clause, desc+": "+what, chainReplay{"chain", names})
		}
		if err != nil {
			fail("ERROR", err.Error())
			return true
		}
		// expectation from the statement
		var firstEarly *actions.EarlyResponseAction
		union := map[string]string{}
		anyEdit := false
		for _, i := range idx {
			if e, ok := own[i].(*actions.EarlyResponseAction); ok && firstEarly == nil {
				firstEarly = e
			}
			if hs, ok := reqHeadersOf(own[i]); ok {
				anyEdit = true
				for k, v := range hs {
					union[k] = v
				}
			}
		}
		r.Outcome(fmt.Sprintf("chain -> %T", got))
		if len(idx) > 1 {
			r.NonTrivial("chain|" + strings.Join(names, ","))
		}
		switch {
		case firstEarly != nil:
			e, ok := got.(*actions.EarlyResponseAction)
			if !ok {
				fail("EARLY-LOST", fmt.Sprintf("a remedy produced an early response (%d) but the combined action is %T", firstEarly.Status, got))
			} else if e.Status != firstEarly.Status || e.Body != firstEarly.Body {
				fail("EARLY-NOT-FIRST", fmt.Sprintf("the combined early response is %d, the first one produced was %d", e.Status, firstEarly.Status))
			}
		case anyEdit:
			hs, ok := reqHeadersOf(got)
			if !ok {
				fail("EDITS-LOST", fmt.Sprintf("remedies edited headers %v but the combined action is %T", union, got))
				return true
			}
			for k, v := range union {
				if hs[k] != v {
					fail("HEADER-UNION", fmt.Sprintf("combined header edits %v, expected the union with the later edit winning %v", hs, union))
					break
				}
			}
		default:
			if _, ok := got.(*actions.NoOpAction); !ok {
				fail("NOT-NOOP", fmt.Sprintf("all remedies were no-ops but the combined action is %T", got))
			}
		}
		return true
	})
}
