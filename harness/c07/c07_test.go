// C07 — combined actions: early response wins, header edits merge last-writer-wins.
// Engine: seqx product enumeration (all action sequences up to a length over a fixed
// alphabet) driving the real fold in routing.getSPOEReqActions / getSPOERespActions.
package c07

import (
	"fmt"
	"reflect"
	"sort"
	"strings"
	"testing"

	"lunar/engine/actions"
	"lunar/engine/config"
	lunar_messages "lunar/engine/messages"
	"lunar/engine/routing"
	"verifharness/mc"

	"github.com/negasus/haproxy-spoe-go/action"
)

type reqLetter struct {
	name string
	mk   func() actions.ReqLunarAction
}

func h(kv ...string) map[string]string {
	m := map[string]string{}
	for i := 0; i+1 < len(kv); i += 2 {
		m[kv[i]] = kv[i+1]
	}
	return m
}

var reqAlphabet = []reqLetter{
	{"NoOp", func() actions.ReqLunarAction { return &actions.NoOpAction{} }},
	{"ModHdr{h:1}", func() actions.ReqLunarAction { return &actions.ModifyHeadersAction{HeadersToSet: h("h", "1")} }},
	{"Early(429,a)", func() actions.ReqLunarAction {
		return &actions.EarlyResponseAction{Status: 429, Body: "a", Headers: h("x", "1")}
	}},
	{"ModHdr{h:2}", func() actions.ReqLunarAction { return &actions.ModifyHeadersAction{HeadersToSet: h("h", "2")} }},
	{"ModReq{h:3,path}", func() actions.ReqLunarAction {
		return &actions.ModifyRequestAction{HeadersToSet: h("h", "3"), Path: "/p"}
	}},
	{"Early(503,b)", func() actions.ReqLunarAction {
		return &actions.EarlyResponseAction{Status: 503, Body: "b", Headers: h()}
	}},
	{"ModHdr{g:1}", func() actions.ReqLunarAction { return &actions.ModifyHeadersAction{HeadersToSet: h("g", "1")} }},
	{"ModReq{k:1,body}", func() actions.ReqLunarAction {
		return &actions.ModifyRequestAction{HeadersToSet: h("k", "1"), Body: "B"}
	}},
	{"GenReq{h:4}", func() actions.ReqLunarAction {
		return &actions.GenerateRequestAction{HeadersToSet: h("h", "4"), Body: "G"}
	}},
	{"GenReq{g:5,rm z}", func() actions.ReqLunarAction {
		return &actions.GenerateRequestAction{HeadersToSet: h("g", "5"), HeadersToRemove: []string{"z"}}
	}},
	{"ModHdr{}", func() actions.ReqLunarAction { return &actions.ModifyHeadersAction{HeadersToSet: h()} }},
	// the same header name in another spelling: a different map key, both edits are carried
	{"ModHdr{H:6}", func() actions.ReqLunarAction { return &actions.ModifyHeadersAction{HeadersToSet: h("H", "6")} }},
}

type respLetter struct {
	name string
	mk   func() actions.RespLunarAction
}

var respAlphabet = []respLetter{
	{"NoOp", func() actions.RespLunarAction { return &actions.NoOpAction{} }},
	{"ModResp{h:1,b1,200}", func() actions.RespLunarAction {
		return &actions.ModifyResponseAction{HeadersToSet: h("h", "1"), Body: "b1", Status: 200}
	}},
	{"Retry{h:1}", func() actions.RespLunarAction { return &actions.RetryRequestAction{HeadersToSet: h("h", "1")} }},
	{"ModResp{h:2,b2,500}", func() actions.RespLunarAction {
		return &actions.ModifyResponseAction{HeadersToSet: h("h", "2"), Body: "b2", Status: 500}
	}},
	{"ModResp{g:1,b3,201}", func() actions.RespLunarAction {
		return &actions.ModifyResponseAction{HeadersToSet: h("g", "1"), Body: "b3", Status: 201}
	}},
	{"Retry{r:1,h:9}", func() actions.RespLunarAction {
		return &actions.RetryRequestAction{HeadersToSet: h("r", "1", "h", "9")}
	}},
	{"ModResp{H:6,b4,202}", func() actions.RespLunarAction {
		return &actions.ModifyResponseAction{HeadersToSet: h("H", "6"), Body: "b4", Status: 202}
	}},
}

func vars(a action.Actions) map[string]any {
	m := map[string]any{}
	for _, x := range a {
		if x.Type == action.TypeSetVar {
			if b, ok := x.Value.([]byte); ok {
				m[x.Name] = string(b)
			} else {
				m[x.Name] = x.Value
			}
		}
	}
	return m
}

func parseHeaders(v any) (map[string]string, bool) {
	s, ok := v.(string)
	if !ok {
		return nil, false
	}
	m := map[string]string{}
	for _, l := range strings.Split(s, "\n") {
		if l == "" {
			continue
		}
		i := strings.IndexByte(l, ':')
		if i < 0 {
			return nil, false
		}
		m[l[:i]] = l[i+1:]
	}
	return m, true
}

func reqHeadersOf(a actions.ReqLunarAction) (map[string]string, bool) {
	switch x := a.(type) {
	case *actions.ModifyHeadersAction:
		return x.HeadersToSet, true
	case *actions.ModifyRequestAction:
		return x.HeadersToSet, true
	case *actions.GenerateRequestAction:
		return x.HeadersToSet, true
	}
	return nil, false
}

func newReqArgs() lunar_messages.OnRequest {
	return lunar_messages.OnRequest{ID: "1", Method: "GET", Scheme: "http", URL: "h.com/a", Path: "/a", Headers: h("orig", "1")}
}

func seqName[T any](al []T, idx []int, name func(T) string) string {
	var p []string
	for _, i := range idx {
		p = append(p, name(al[i]))
	}
	return "[" + strings.Join(p, ", ") + "]"
}

// checkReq evaluates one request-side sequence; returns "" or the failed clause.
func checkReq(idx []int) (verdict string, outcome string) {
	acts := make([]actions.ReqLunarAction, len(idx))
	snap := make([]actions.ReqLunarAction, len(idx)) // pristine copies of the inputs
	for i, k := range idx {
		acts[i] = reqAlphabet[k].mk()
		snap[i] = reqAlphabet[k].mk()
	}
	// the header map objects the producers handed over (they stay the producers')
	origMaps := map[int]map[string]string{}
	for i, a := range acts {
		if hs, ok := reqHeadersOf(a); ok && hs != nil {
			origMaps[i] = hs
		} else if e, ok := a.(*actions.EarlyResponseAction); ok && e.Headers != nil {
			origMaps[i] = e.Headers
		}
	}
	out := vars(routing.VerifReqActions(newReqArgs(), acts))

	firstEarly := -1
	allNoOp := true
	union := map[string]string{}
	for i, a := range snap {
		if _, ok := a.(*actions.EarlyResponseAction); ok && firstEarly < 0 {
			firstEarly = i
		}
		if _, ok := a.(*actions.NoOpAction); !ok {
			allNoOp = false
		}
		if hs, ok := reqHeadersOf(a); ok {
			for k, v := range hs {
				union[k] = v
			}
		}
	}
	switch {
	case firstEarly >= 0:
		e := snap[firstEarly].(*actions.EarlyResponseAction)
		if !reflect.DeepEqual(acts[firstEarly], snap[firstEarly]) {
			return "first early response was modified by the fold", "early"
		}
		if out[actions.ReturnEarlyResponseActionName] != true {
			return "an early response was produced but return_early_response is not set", "early"
		}
		if out[actions.StatusCodeActionName] != e.Status || out[actions.ResponseBodyActionName] != e.Body {
			return fmt.Sprintf("early response is not the first one: got status=%v body=%v want %d %q",
				out[actions.StatusCodeActionName], out[actions.ResponseBodyActionName], e.Status, e.Body), "early"
		}
		hs, ok := parseHeaders(out[actions.ResponseHeadersActionName])
		if !ok || !reflect.DeepEqual(hs, e.Headers) {
			return fmt.Sprintf("early response headers differ: got %v want %v", hs, e.Headers), "early"
		}
		for _, n := range []string{actions.RequestHeadersActionName, actions.ModifyRequestActionName, actions.GenerateRequestActionName} {
			if _, present := out[n]; present {
				return "early response encoding also carries request modification variable " + n, "early"
			}
		}
		outcome = "early"
	case allNoOp:
		if len(out) != 0 {
			return fmt.Sprintf("all inputs were no-ops but the result is %v", out), "noop"
		}
		outcome = "noop"
	default:
		if _, early := out[actions.ReturnEarlyResponseActionName]; early {
			return "early response returned although no action produced one", "mod"
		}
		hs, ok := parseHeaders(out[actions.RequestHeadersActionName])
		if !ok {
			return fmt.Sprintf("a modification was produced but the result carries no request_headers: %v", out), "mod"
		}
		if !reflect.DeepEqual(hs, union) {
			return fmt.Sprintf("header edits are not the later-wins union: got %v want %v", hs, union), "mod"
		}
		outcome = "mod"
		if out[actions.ModifyRequestActionName] == true {
			outcome = "modreq"
		} else if out[actions.GenerateRequestActionName] == true {
			outcome = "genreq"
		}
	}
	// aliasing: the fold must not write into the actions it combines (their producers may
	// hand the same header map out again for the next request, whose result would then carry
	// this request's edits), ...
	for i := range acts {
		if m, ok := origMaps[i]; ok {
			want, _ := reqHeadersOf(snap[i])
			if e, isEarly := snap[i].(*actions.EarlyResponseAction); isEarly {
				want = e.Headers
			}
			if !reflect.DeepEqual(m, want) {
				return fmt.Sprintf("input-mutated: the fold wrote into the header map of input action %d: now %v, was %v", i, m, want), outcome
			}
		}
	}
	// ... and folding the same objects a second time must give the same encoding
	out2 := vars(routing.VerifReqActions(newReqArgs(), acts))
	if !reflect.DeepEqual(norm(out), norm(out2)) {
		return fmt.Sprintf("folding the same action objects twice gives different results: %v vs %v", norm(out), norm(out2)), outcome
	}
	return "", outcome
}

func checkResp(idx []int) (verdict string, outcome string) {
	acts := make([]actions.RespLunarAction, len(idx))
	snap := make([]actions.RespLunarAction, len(idx))
	for i, k := range idx {
		acts[i] = respAlphabet[k].mk()
		snap[i] = respAlphabet[k].mk()
	}
	args := lunar_messages.OnResponse{ID: "1", Method: "GET", URL: "h.com/a", Status: 200, Headers: h("orig", "1")}
	out := vars(routing.VerifRespActions(args, acts))
	var mods []*actions.ModifyResponseAction
	var retries []*actions.RetryRequestAction
	for _, a := range snap {
		switch x := a.(type) {
		case *actions.ModifyResponseAction:
			mods = append(mods, x)
		case *actions.RetryRequestAction:
			retries = append(retries, x)
		}
	}
	isMod := out[actions.ModifyResponseActionName] == true
	isRetry := out[actions.RetryRequestActionName] == true
	switch {
	case len(mods) == 0 && len(retries) == 0:
		if len(out) != 0 {
			return fmt.Sprintf("all inputs were no-ops but the result is %v", out), "noop"
		}
		return "", "noop"
	case !isMod && !isRetry:
		return fmt.Sprintf("a no-op displaced a modification/retry: result %v", out), "lost"
	case isMod && isRetry:
		return "result is both a modification and a retry", "both"
	case isMod:
		if len(mods) == 0 {
			return "modification returned although none was produced", "mod"
		}
		hs, ok := parseHeaders(out[actions.ResponseHeadersActionName])
		if !ok {
			return "modify_response without response_headers", "mod"
		}
		okPair := false
		for _, m := range mods {
			if out[actions.StatusCodeActionName] == m.Status && out[actions.ResponseBodyActionName] == m.Body {
				okPair = true
			}
		}
		if !okPair {
			return fmt.Sprintf("status/body %v/%v do not come from one produced modification", out[actions.StatusCodeActionName], out[actions.ResponseBodyActionName]), "mod"
		}
		if len(retries) == 0 {
			union := map[string]string{}
			for _, m := range mods {
				for k, v := range m.HeadersToSet {
					union[k] = v
				}
			}
			if !reflect.DeepEqual(hs, union) {
				return fmt.Sprintf("response header edits are not the later-wins union: got %v want %v", hs, union), "mod"
			}
		} else {
			for k, v := range hs {
				found := false
				for _, m := range mods {
					if m.HeadersToSet[k] == v {
						found = true
					}
				}
				if !found {
					return fmt.Sprintf("response header %s:%s was produced by no modification", k, v), "mod"
				}
			}
		}
		outcome = "mod"
	case isRetry:
		if len(retries) == 0 {
			return "retry returned although none was produced", "retry"
		}
		hs, ok := parseHeaders(out[actions.RetryHeadersActionName])
		if !ok {
			return "retry_request without retry_headers", "retry"
		}
		if len(mods) == 0 {
			union := map[string]string{}
			for _, m := range retries {
				for k, v := range m.HeadersToSet {
					union[k] = v
				}
			}
			if !reflect.DeepEqual(hs, union) {
				return fmt.Sprintf("retry header edits are not the later-wins union: got %v want %v", hs, union), "retry"
			}
		} else {
			for k, v := range hs {
				found := false
				for _, m := range retries {
					if m.HeadersToSet[k] == v {
						found = true
					}
				}
				if !found {
					return fmt.Sprintf("retry header %s:%s was produced by no retry action", k, v), "retry"
				}
			}
		}
		outcome = "retry"
	}
	out2 := vars(routing.VerifRespActions(args, acts))
	if !reflect.DeepEqual(norm(out), norm(out2)) {
		return fmt.Sprintf("folding the same action objects twice gives different results: %v vs %v", norm(out), norm(out2)), outcome
	}
	return "", outcome
}

// norm makes header dumps (map iteration order) comparable.
func norm(m map[string]any) map[string]any {
	o := map[string]any{}
	for k, v := range m {
		if strings.HasSuffix(k, "_headers") {
			if hs, ok := parseHeaders(v); ok {
				o[k] = hs
				continue
			}
		}
		o[k] = v
	}
	return o
}

func sortedKeys(m map[string]any) []string {
	ks := make([]string, 0, len(m))
	for k := range m {
		ks = append(ks, k)
	}
	sort.Strings(ks)
	return ks
}

type replay struct {
	Side string `json:"side"`
	Seq  []int  `json:"seq"`
	Text string `json:"text"`
}

func TestCheck(t *testing.T) {
	r := mc.New("C07", "exploration")
	if f := mc.ReplayFile(); f != "" {
		var cr chainReplay
		if err := mc.LoadReplay(f, &cr); err == nil && cr.Family == "chain" {
			var rs []config.ScopedRemedy
			for _, n := range cr.Chain {
				for _, l := range chainAlphabet() {
					if l.name == n {
						rs = append(rs, l.rem)
					}
				}
			}
			got, err := runChain(rs)
			fmt.Printf("replay chain %v -> %T %+v err=%v\n", cr.Chain, got, got, err)
			rr := mc.New("C07", "exploration")
			chainFamily(t, rr)
			if rr.NumFindings() > 0 {
				t.Fail()
			}
			return
		}
		var rp replay
		if err := mc.LoadReplay(f, &rp); err != nil {
			t.Fatal(err)
		}
		var v string
		if rp.Side == "req" {
			v, _ = checkReq(rp.Seq)
		} else {
			v, _ = checkResp(rp.Seq)
		}
		fmt.Printf("replay %s %s -> %q\n", rp.Side, rp.Text, v)
		if v != "" {
			t.Fail()
		}
		return
	}
	maxLen := mc.Pick(r, 5, 6)
	r.Rule = fmt.Sprintf("every sequence of request actions (alphabet %d) and of response actions (alphabet %d) of length 0..%d, simplest first, folded by the real routing.getSPOEReqActions/getSPOERespActions; plus every chain of <=%d real remedies (OAuth / API-key / basic authentication / two fixed responses) through the policy-mode runner.runOnRequest; non-trivial = sequence with >=2 non-no-op actions; distinct = by sequence", len(reqAlphabet), len(respAlphabet), maxLen, maxLen)
	r.Assume("header edits of the statement = HeadersToSet maps; HeadersToRemove of GenerateRequest is not asserted",
		"for response sequences mixing modifications and retries the statement fixes no winner: only provenance of the result is checked")
	mc.Sequences(len(reqAlphabet), maxLen, func(idx []int) bool {
		v, o := checkReq(idx)
		r.Add("evaluations", 1)
		r.Outcome("req:" + o)
		nt := 0
		for _, k := range idx {
			if k != 0 {
				nt++
			}
		}
		name := seqName(reqAlphabet, idx, func(l reqLetter) string { return l.name })
		if nt >= 2 {
			r.NonTrivial("req" + name)
			if len(idx) == 3 && idx[0] == 4 && idx[1] == 2 {
				r.Sample(map[string]any{"side": "request", "sequence": name, "outcome": o})
			}
		}
		if v != "" {
			r.Violation("req:"+v[:min(len(v), 40)], name+": "+v, replay{"req", append([]int{}, idx...), name})
		}
		return true
	})
	mc.Sequences(len(respAlphabet), maxLen+1, func(idx []int) bool {
		v, o := checkResp(idx)
		r.Add("evaluations", 1)
		r.Outcome("resp:" + o)
		nt := 0
		for _, k := range idx {
			if k != 0 {
				nt++
			}
		}
		name := seqName(respAlphabet, idx, func(l respLetter) string { return l.name })
		if nt >= 2 {
			r.NonTrivial("resp" + name)
			if len(idx) == 3 && idx[0] == 1 && idx[1] == 3 {
				r.Sample(map[string]any{"side": "response", "sequence": name, "outcome": o})
			}
		}
		if v != "" {
			r.Violation("resp:"+v[:min(len(v), 40)], name+": "+v, replay{"resp", append([]int{}, idx...), name})
		}
		return true
	})
	chainFamily(t, r)
	r.Finish(t)
}
