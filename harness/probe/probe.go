// Package probe provides the "processor executed" event hook for C04/C05: a probe processor
// type (VerifProbe) whose output is steered by the harness, and a wrapper around every
// processor factory that records (flow, processor key, direction, output condition, output
// type) for each execution of any processor, built-in ones included.
package probe

import (
	"fmt"
	"os"
	"path/filepath"
	"strings"

	"lunar/engine/actions"
	"lunar/engine/streams/processors"
	publictypes "lunar/engine/streams/public-types"
	streamtypes "lunar/engine/streams/types"
	"verifharness/eng"
)

// Event is one processor execution.
type Event struct {
	Flow, Key string
	Dir       string // "req" / "res"
	Out       string // condition name
	Early     bool   // the processor answered the request itself
	Err       string
}

func (e Event) String() string {
	s := e.Dir + ":" + e.Flow + "/" + e.Key
	if e.Out != "" {
		s += "=" + e.Out
	}
	if e.Early {
		s += "!early"
	}
	if e.Err != "" {
		s += "!err"
	}
	return s
}

var (
	// Events is the trace of the current transaction (reset by the harness).
	Events []Event
	// Plan steers the probes: key "req:<flow>/<processor key>" or "res:<flow>/<processor key>" ->
	// "" (no condition), a condition name, or "early" (request direction only).
	Plan = map[string]string{}
	// ReportCurrentType makes the probes report the current stream type in their output (as
	// most shipped processors do) instead of StreamTypeAny.
	ReportCurrentType bool
	// Limit aborts a transaction (panic with ErrLimit) when more than Limit processors were
	// executed for it (0 = no limit): the bounded-step oracle of C05.
	Limit int
)

type LimitExceeded struct{ N int }

func (l LimitExceeded) Error() string { return fmt.Sprintf("more than %d processor executions", l.N) }

func dir(a publictypes.APIStreamI) string {
	if a.GetType().IsResponseType() {
		return "res"
	}
	return "req"
}

type probeProc struct{ name string }

func (p *probeProc) GetName() string { return p.name }
func (p *probeProc) GetRequirement() *streamtypes.ProcessorRequirement {
	return &streamtypes.ProcessorRequirement{}
}

func (p *probeProc) Execute(flow string, a publictypes.APIStreamI) (streamtypes.ProcessorIO, error) {
	d := dir(a)
	out := Plan[d+":"+flow+"/"+p.name]
	if out == "early" && d == "req" {
		return streamtypes.ProcessorIO{Type: publictypes.StreamTypeResponse, Name: "",
			ReqAction: &actions.EarlyResponseAction{Status: 299, Body: p.name}}, nil
	}
	if out == "early" {
		out = ""
	}
	typ := publictypes.StreamTypeAny
	if ReportCurrentType {
		typ = a.GetType()
	}
	if d == "req" {
		return streamtypes.ProcessorIO{Type: typ, Name: out, ReqAction: &actions.NoOpAction{}}, nil
	}
	return streamtypes.ProcessorIO{Type: typ, Name: out, RespAction: &actions.NoOpAction{}}, nil
}

type wrapped struct {
	streamtypes.ProcessorI
}

func (w *wrapped) Execute(flow string, a publictypes.APIStreamI) (streamtypes.ProcessorIO, error) {
	if Limit > 0 && len(Events) >= Limit {
		panic(LimitExceeded{Limit})
	}
	d := dir(a)
	i := len(Events)
	Events = append(Events, Event{Flow: flow, Key: w.GetName(), Dir: d})
	io, err := w.ProcessorI.Execute(flow, a)
	Events[i].Out = io.Name
	Events[i].Early = d == "req" && io.Type.IsResponseType()
	if err != nil {
		Events[i].Err = err.Error()
	}
	return io, err
}

const probeYAML = `name: VerifProbe
description: harness probe (records its execution, output steered by the harness)
exec: verif_probe.go
parameters:
  note:
    type: string
    description: unused
    default: ""
    required: false
output_streams:
  - type: StreamTypeAny
  - name: a
    type: StreamTypeAny
  - name: b
    type: StreamTypeAny
input_stream:
  type: StreamTypeAny
`

var dirCache string

// Install registers the probe and the recording wrapper and returns a processors directory
// (the repository's registry plus the probe's definition) to pass to eng.NewStreamP.
func Install() string {
	processors.VerifInstall(map[string]processors.ProcessorFactory{
		"VerifProbe": func(md *streamtypes.ProcessorMetaData) (streamtypes.ProcessorI, error) {
			return &probeProc{name: md.Name}, nil
		},
	}, func(_ *streamtypes.ProcessorMetaData, p streamtypes.ProcessorI) streamtypes.ProcessorI {
		return &wrapped{p}
	})
	if dirCache != "" {
		return dirCache
	}
	d, err := os.MkdirTemp(workDir(), "procs-")
	if err != nil {
		panic(err)
	}
	ents, err := os.ReadDir(eng.RegistryDir)
	if err != nil {
		panic(err)
	}
	for _, e := range ents {
		if strings.HasSuffix(e.Name(), ".yaml") {
			b, _ := os.ReadFile(filepath.Join(eng.RegistryDir, e.Name()))
			os.WriteFile(filepath.Join(d, e.Name()), b, 0o644)
		}
	}
	os.WriteFile(filepath.Join(d, "verif_probe.yaml"), []byte(probeYAML), 0o644)
	dirCache = d
	return d
}

func workDir() string {
	if w := os.Getenv("VERIF_WORK"); w != "" {
		return w
	}
	return os.TempDir()
}

// Reset clears the trace and installs a plan.
func Reset(plan map[string]string) {
	Events = nil
	Plan = plan
	if Plan == nil {
		Plan = map[string]string{}
	}
}

// Trace renders the current events.
func Trace() []string {
	out := make([]string, len(Events))
	for i, e := range Events {
		out[i] = e.String()
	}
	return out
}
