// C02 — concurrency quotas bound in-flight requests and always free their slots.
// Engines: seqx history BFS over request / response / proxy-error / clock histories of
// three transaction slots through a real engine (concurrent quota, Limiter, early-response
// branch, the repo's own system flows and GC goroutine) in virtual time; schedx for
// concurrent arrivals and response-vs-error-vs-GC.
package c02

import (
	"context"
	"fmt"
	"os"
	"sort"
	"strings"
	"testing"
	"testing/synctest"
	"time"

	"lunar/engine/streams"
	"lunar/engine/streams/validation"
	contextmanager "lunar/toolkit-core/context-manager"
	"verifharness/eng"
	"verifharness/mc"
)

const (
	expiry = 2 * time.Second
	gcInt  = time.Second
	slack  = 10 * time.Millisecond // timeDeltaForDeadRequestDecision
)

type cfg struct {
	Max int
	// TwoQuotas: a second, fixed-window quota with its own Limiter follows the concurrent one
	TwoQuotas bool
	// RateFirst: (with TwoQuotas) the fixed-window Limiter comes first, the concurrent one second
	RateFirst bool
	// AfterRejectedDryRun: before the engine is built, the same process validated (and
	// refused) a configuration whose quota file is broken and then validated the good one -
	// what a refused configuration update followed by its roll-back does
	AfterRejectedDryRun bool
	// UnreferencedSibling: a second, fixed-window quota R with the SAME filter URL that no
	// Limiter references (its system flows count requests)
	UnreferencedSibling bool
	// NarrowQuota: the concurrent quota's own filter (h.com/b/*) does not cover the traffic than the filter of
	// the flow whose Limiter uses it (h.com/*)
	NarrowQuota bool
	// LateCluster: the gateway's cluster object (instance id, peers) is registered with the
	// context manager only after the engine - and with it the quota - was built
	LateCluster bool
	// Hierarchy: concurrent quota Q (max Max, h.com/*) with a concurrent internal limit C (max 1,
	// h.com/c/*).  Slot 1 sends to a flow that asks C only, slot 2 to a flow that asks Q and
	// then C, slot 3 to a flow that asks Q only.
	Hierarchy bool
}

type lateCluster struct{ id string }

func (c *lateCluster) GetInstanceID() string          { return c.id }
func (c *lateCluster) IsPartOfCluster(id string) bool { return id == c.id }
func (c *lateCluster) GetPeerIDs() []string           { return []string{c.id} }
func (c *lateCluster) Stop()                          {}

func (c cfg) name() string {
	if c.AfterRejectedDryRun {
		return fmt.Sprintf("max=%d after a rejected dry run", c.Max)
	}
	if c.UnreferencedSibling {
		return fmt.Sprintf("max=%d + unreferenced quota on the same URL", c.Max)
	}
	if c.NarrowQuota {
		return fmt.Sprintf("max=%d, quota filter narrower than the flow's", c.Max)
	}
	if c.Hierarchy {
		return fmt.Sprintf("max=%d with an internal limit of 1; flows asking the limit, the quota then the limit, the quota", c.Max)
	}
	if c.LateCluster {
		return fmt.Sprintf("max=%d, cluster object registered after the engine was built", c.Max)
	}
	if c.TwoQuotas && c.RateFirst {
		return fmt.Sprintf("rate-quota+max=%d", c.Max)
	}
	if c.TwoQuotas {
		return fmt.Sprintf("max=%d+rate-quota", c.Max)
	}
	return fmt.Sprintf("max=%d", c.Max)
}

func quotaYAML(c cfg) string {
	extra := ""
	if c.TwoQuotas || c.UnreferencedSibling {
		extra = `  - id: R
    filter:
      url: h.com/*
    strategy:
      fixed_window:
        max: 100
        interval: 60
        interval_unit: second
`
	}
	return fmt.Sprintf(`quotas:
  - id: Q
    filter:
      url: h.com/*
    strategy:
      concurrent:
        max_request_count: %d
        request_expiration_sec: %d
        gc_interval_sec: %d
`, c.Max, int(expiry/time.Second), int(gcInt/time.Second)) + extra
}

func quotaFor(c cfg) string {
	q := quotaYAML(c)
	if c.NarrowQuota {
		q = strings.Replace(q, "      url: h.com/*\n", "      url: h.com/b/*\n", 1)
	}
	return q
}

func flowFor(c cfg) string {
	if !c.TwoQuotas {
		return flowYAML
	}
	f := strings.Replace(flowYAML, `  F:
    processor: Filter`, `  L2:
    processor: Limiter
    parameters:
      - key: quota_id
        value: R
  F:
    processor: Filter`, 1)
	f = strings.Replace(f, `          condition: below_limit
      to:
        processor:
          name: F
`, `          condition: below_limit
      to:
        processor:
          name: L2
    - from:
        processor:
          name: L2
          condition: above_limit
      to:
        processor:
          name: G429
    - from:
        processor:
          name: L2
          condition: below_limit
      to:
        processor:
          name: F
`, 1)
	if c.RateFirst {
		// the same graph with the two Limiters' quotas exchanged: L asks the fixed-window
		// quota, L2 the concurrent one
		f = strings.Replace(f, "        value: Q\n", "        value: @\n", 1)
		f = strings.Replace(f, "        value: R\n", "        value: Q\n", 1)
		f = strings.Replace(f, "        value: @\n", "        value: R\n", 1)
	}
	return f
}

const flowYAML = `name: f
filter:
  url: h.com/*
processors:
  L:
    processor: Limiter
    parameters:
      - key: quota_id
        value: Q
  F:
    processor: Filter
    parameters:
      - key: header
        value: x-early=1
  G429:
    processor: GenerateResponse
    parameters:
      - key: status
        value: 429
  G200:
    processor: GenerateResponse
    parameters:
      - key: status
        value: 200
      - key: body
        value: early
flow:
  request:
    - from:
        stream:
          name: globalStream
          at: start
      to:
        processor:
          name: L
    - from:
        processor:
          name: L
          condition: above_limit
      to:
        processor:
          name: G429
    - from:
        processor:
          name: L
          condition: below_limit
      to:
        processor:
          name: F
    - from:
        processor:
          name: F
          condition: hit
      to:
        processor:
          name: G200
    - from:
        processor:
          name: F
          condition: miss
      to:
        stream:
          name: globalStream
          at: end
  response:
    - from:
        processor:
          name: G429
      to:
        stream:
          name: globalStream
          at: end
    - from:
        processor:
          name: G200
      to:
        stream:
          name: globalStream
          at: end
    - from:
        stream:
          name: globalStream
          at: start
      to:
        stream:
          name: globalStream
          at: end
`

type event struct {
	kind string // req | reqEarly | resp | err | tick
	slot int
	d    time.Duration
}

func (e event) String() string {
	if e.kind == "tick" {
		return fmt.Sprintf("tick(%v)", e.d)
	}
	return fmt.Sprintf("%s(%d)", e.kind, e.slot+1)
}

var alpha = func() []event {
	var ev []event
	for s := 0; s < 3; s++ {
		ev = append(ev, event{kind: "req", slot: s})
	}
	ev = append(ev, event{kind: "reqEarly", slot: 0})
	for s := 0; s < 3; s++ {
		ev = append(ev, event{kind: "resp", slot: s})
	}
	ev = append(ev, event{kind: "err", slot: 0}, event{kind: "err", slot: 1})
	ev = append(ev, event{kind: "tick", d: time.Second}, event{kind: "tick", d: 3 * time.Second})
	return ev
}()

type slotState struct {
	inflight bool
	id       string
	n        int
}

type holder struct {
	id   string
	at   time.Time
	kind string // hierarchy configuration: which flow admitted it
}

type model struct {
	c       cfg
	s       *streams.Stream
	root    string
	cancel  context.CancelFunc
	slots   [3]slotState
	holders []holder // admitted, not ended (reference)
	ended   map[string]bool
}

func newModel(c cfg) *model {
	ctx, cancel := context.WithCancel(context.Background())
	contextmanager.Get().WithContext(ctx)
	contextmanager.Get().WithClusterLiveness(nil)
	if c.AfterRejectedDryRun {
		good := eng.Files{Flows: map[string]string{"f.yaml": flowFor(c)}, Quotas: map[string]string{"q.yaml": quotaYAML(c)}}
		bad := eng.Files{Flows: good.Flows, Quotas: map[string]string{"q.yaml": "quotas:\n  - id: Q\n    filter:\n      url: h.com/*\n    strategy:\n      concurrent:\n        max_request_count: [not a number\n"}}
		for i, f := range []eng.Files{bad, good} {
			root, err := eng.Dir(f, "")
			if err != nil {
				panic(err)
			}
			eng.Point(root, "")
			verr := validation.NewValidator().Validate()
			if (verr == nil) != (i == 1) {
				panic(fmt.Sprintf("dry run %d: unexpected verdict %v", i, verr))
			}
		}
	}
	files := eng.Files{Flows: map[string]string{"f.yaml": flowFor(c)}, Quotas: map[string]string{"q.yaml": quotaFor(c)}}
	if c.Hierarchy {
		files = eng.Files{Flows: map[string]string{"fc.yaml": hflow("fc", "h.com/c/x/*", "C"), "fd.yaml": hflow("fd", "h.com/c/d/*", "Q", "C"), "fa.yaml": hflow("fa", "h.com/a/*", "Q")},
			Quotas: map[string]string{"q.yaml": quotaYAML(c) + fmt.Sprintf("internal_limits:\n  - id: C\n    parent_id: Q\n    filter:\n      url: h.com/c/*\n    strategy:\n      concurrent:\n        max_request_count: 1\n        request_expiration_sec: %d\n        gc_interval_sec: %d\n", int(expiry/time.Second), int(gcInt/time.Second))}}
	}
	s, root, err := eng.NewStream(files)
	if err != nil {
		panic("engine did not load: " + err.Error())
	}
	if c.LateCluster {
		contextmanager.Get().WithClusterLiveness(&lateCluster{id: "gateway-1"})
	}
	return &model{c: c, s: s, root: root, cancel: cancel, ended: map[string]bool{}}
}

func (m *model) close() {
	m.cancel()
	time.Sleep(time.Hour)
	synctest.Wait()
}

// occupancy bounds of the reference at time now
func (m *model) bounds(now time.Time) (lo, hi int) {
	for _, h := range m.holders {
		age := now.Sub(h.at)
		if age < expiry+slack {
			lo++
		}
		if age < expiry+slack+gcInt+time.Millisecond {
			hi++
		}
	}
	return
}

func (m *model) release(id string) {
	for i, h := range m.holders {
		if h.id == id {
			m.holders = append(m.holders[:i], m.holders[i+1:]...)
			return
		}
	}
}

// hflow: a flow that asks the given quotas in order (refused by any: 429), then answers
// requests carrying x-early itself (200) and forwards the others.
func hflow(name, url string, quotas ...string) string {
	var sb strings.Builder
	fmt.Fprintf(&sb, "name: %s\nfilter:\n  url: %s\nprocessors:\n", name, url)
	for i, q := range quotas {
		fmt.Fprintf(&sb, "  L%d%s:\n    processor: Limiter\n    parameters:\n      - key: quota_id\n        value: %s\n", i, name, q)
	}
	fmt.Fprintf(&sb, "  F%[1]s:\n    processor: Filter\n    parameters:\n      - key: header\n        value: x-early=1\n  G429%[1]s:\n    processor: GenerateResponse\n    parameters:\n      - key: status\n        value: 429\n  G200%[1]s:\n    processor: GenerateResponse\n    parameters:\n      - key: status\n        value: 200\n      - key: body\n        value: early\n", name)
	sb.WriteString("flow:\n  request:\n")
	conn := func(from, cond, to string) {
		if from == "" {
			sb.WriteString("    - from:\n        stream:\n          name: globalStream\n          at: start\n")
		} else if cond == "" {
			fmt.Fprintf(&sb, "    - from:\n        processor:\n          name: %s\n", from)
		} else {
			fmt.Fprintf(&sb, "    - from:\n        processor:\n          name: %s\n          condition: %s\n", from, cond)
		}
		if to == "" {
			sb.WriteString("      to:\n        stream:\n          name: globalStream\n          at: end\n")
		} else {
			fmt.Fprintf(&sb, "      to:\n        processor:\n          name: %s\n", to)
		}
	}
	l := func(i int) string { return fmt.Sprintf("L%d%s", i, name) }
	conn("", "", l(0))
	for i := range quotas {
		conn(l(i), "above_limit", "G429"+name)
		next := "F" + name
		if i+1 < len(quotas) {
			next = l(i + 1)
		}
		conn(l(i), "below_limit", next)
	}
	conn("F"+name, "hit", "G200"+name)
	conn("F"+name, "miss", "")
	sb.WriteString("  response:\n")
	conn("G429"+name, "", "")
	conn("G200"+name, "", "")
	sb.WriteString("    - from:\n        stream:\n          name: globalStream\n          at: start\n      to:\n        stream:\n          name: globalStream\n          at: end\n")
	return sb.String()
}

var hKind = [3]string{"c", "d", "a"}
var hURL = [3]string{"h.com/c/x/1", "h.com/c/d/1", "h.com/a/1"}

// hBounds: slots of Q and of C that are certainly / possibly held.  A transaction that asked Q
// and then C ("d") holds one slot of Q for certain and possibly two (the limit's own
// admission walks up to its parent as well); which of the two is not part of the statement.
func (m *model) hBounds(now time.Time) (loQ, hiQ, loC, hiC int) {
	for _, h := range m.holders {
		age := now.Sub(h.at)
		certain, possible := age < expiry+slack, age < expiry+slack+gcInt+time.Millisecond
		k := h.kind
		if certain {
			loQ++
			if k != "a" {
				loC++
			}
		}
		if possible {
			hiQ++
			if k == "d" {
				hiQ++
			}
			if k != "a" {
				hiC++
			}
		}
	}
	return
}

func (m *model) applyH(e event) string {
	sl := &m.slots[e.slot]
	now := time.Now()
	kind, url := hKind[e.slot], hURL[e.slot]
	switch e.kind {
	case "req", "reqEarly":
		if sl.inflight {
			return ""
		}
		sl.n++
		sl.id = fmt.Sprintf("t%d.%d", e.slot+1, sl.n)
		hs := map[string]string{}
		if e.kind == "reqEarly" {
			hs["x-early"] = "1"
		}
		loQ, hiQ, loC, hiC := m.hBounds(now)
		v := eng.OnRequest(m.s, eng.Req{ID: sl.id, URL: url, Headers: hs})
		if os.Getenv("VERIF_REPLAY") != "" {
			fmt.Printf("   %s %s -> early=%v status=%d err=%q\n", sl.id, url, v.Early, v.Status, v.Err)
		}
		if v.Err != "" {
			return "ERROR " + v.Err
		}
		maxQ := m.c.Max
		if !(v.Early && v.Status == 429) {
			if loQ >= maxQ || (kind != "a" && loC >= 1) {
				return fmt.Sprintf("OVER-ADMISSION %s (%s, asks %s) was admitted while quota Q held %d of %d and its internal limit %d of 1 unexpired transactions: %v", e, sl.id, asks(kind), loQ, maxQ, loC, m.holders)
			}
			if v.Early {
				if e.kind != "reqEarly" {
					return fmt.Sprintf("UNEXPECTED-EARLY %s got an early response %d", e, v.Status)
				}
				return ""
			}
			if e.kind == "reqEarly" {
				return fmt.Sprintf("EARLY-BRANCH %s should have been answered by the gateway (x-early) but was forwarded", e)
			}
			sl.inflight = true
			m.holders = append(m.holders, holder{id: sl.id, at: now, kind: kind})
			return ""
		}
		need := 1
		if kind == "d" {
			need = 2
		}
		if hiQ+need <= maxQ && (kind == "a" || hiC < 1) {
			return fmt.Sprintf("SLOT-LEAK:hierarchy %s (%s, asks %s) was refused although at most %d of %d slots of Q and %d of 1 of its internal limit can still be taken (holders %v)", e, sl.id, asks(kind), hiQ, maxQ, hiC, m.holders)
		}
		return ""
	case "resp":
		if !sl.inflight {
			return ""
		}
		v := eng.OnResponse(m.s, eng.Resp{ID: sl.id, URL: url, Status: 200})
		sl.inflight = false
		m.release(sl.id)
		if v.Err != "" {
			return "ERROR " + v.Err
		}
	case "err":
		if !sl.inflight {
			return ""
		}
		m.s.OnError(sl.id)
		sl.inflight = false
		m.release(sl.id)
	}
	return ""
}

func asks(kind string) string {
	return map[string]string{"c": "the internal limit", "d": "the quota, then its internal limit", "a": "the quota"}[kind]
}

func (m *model) Apply(ei int) string {
	e := alpha[ei]
	if e.kind != "tick" && m.c.Hierarchy {
		return m.applyH(e)
	}
	if e.kind == "tick" {
		time.Sleep(e.d)
		synctest.Wait() // the quota's GC goroutine runs when due
		return ""
	}
	sl := &m.slots[e.slot]
	now := time.Now()
	switch e.kind {
	case "req", "reqEarly":
		if sl.inflight {
			return ""
		}
		sl.n++
		sl.id = fmt.Sprintf("t%d.%d", e.slot+1, sl.n)
		hs := map[string]string{}
		if e.kind == "reqEarly" {
			hs["x-early"] = "1"
		}
		lo, hi := m.bounds(now)
		v := eng.OnRequest(m.s, eng.Req{ID: sl.id, URL: "h.com/a", Headers: hs})
		if v.Err != "" {
			return "ERROR " + v.Err
		}
		refused := v.Early && v.Status == 429
		if !refused {
			if lo >= m.c.Max {
				return fmt.Sprintf("OVER-ADMISSION %s (%s) was admitted while %d admitted transactions were still in flight and unexpired (max %d): %v", e, sl.id, lo, m.c.Max, m.holders)
			}
			if v.Early {
				// the gateway answered it itself: the transaction is over, its slot must be back
				if e.kind != "reqEarly" {
					return fmt.Sprintf("UNEXPECTED-EARLY %s got an early response %d", e, v.Status)
				}
				return ""
			}
			if e.kind == "reqEarly" {
				return fmt.Sprintf("EARLY-BRANCH %s should have been answered by the gateway (x-early) but was forwarded", e)
			}
			sl.inflight = true
			m.holders = append(m.holders, holder{id: sl.id, at: now})
			return ""
		}
		if hi < m.c.Max {
			return fmt.Sprintf("SLOT-LEAK %s (%s) was refused although at most %d of %d slots can still be taken (holders %v)", e, sl.id, hi, m.c.Max, m.holders)
		}
		return ""
	case "resp":
		if !sl.inflight {
			return ""
		}
		v := eng.OnResponse(m.s, eng.Resp{ID: sl.id, URL: "h.com/a", Status: 200})
		sl.inflight = false
		m.release(sl.id)
		if v.Err != "" {
			return "ERROR " + v.Err
		}
	case "err":
		if !sl.inflight {
			return ""
		}
		m.s.OnError(sl.id)
		sl.inflight = false
		m.release(sl.id)
	}
	return ""
}

func (m *model) Key() string {
	now := time.Now()
	var hs []string
	for _, h := range m.holders {
		hs = append(hs, fmt.Sprintf("%v", now.Sub(h.at)))
	}
	sort.Strings(hs)
	var ss []string
	for _, s := range m.slots {
		ss = append(ss, fmt.Sprint(s.inflight))
	}
	d := streams.VerifQuotaDump(m.s, now)
	// request ids differ between histories that are otherwise identical: rename by slot
	for i, s := range m.slots {
		if s.id != "" {
			d = strings.ReplaceAll(d, s.id, fmt.Sprintf("cur%d", i+1))
		}
	}
	return strings.Join(hs, ",") + "|" + strings.Join(ss, ",") + "|" + d
}

var _ = os.Getenv

func TestCheck(t *testing.T) {
	r := mc.New("C02", "model_checking")
	depth := mc.Pick(r, 6, 7)
	cs := []cfg{{Max: 1}, {Max: 2}, {Max: 1, TwoQuotas: true}, {Max: 1, TwoQuotas: true, RateFirst: true}, {Max: 1, AfterRejectedDryRun: true}, {Max: 1, UnreferencedSibling: true}, {Max: 1, NarrowQuota: true}, {Max: 1, LateCluster: true}, {Max: 2, Hierarchy: true}}
	if f := mc.ReplayFile(); f != "" {
		var rp mc.BFSReplay
		if err := mc.LoadReplay(f, &rp); err != nil || rp.Model == "" {
			fmt.Println("replay: schedule findings carry their trace in the replay file")
			return
		}
		for _, c := range cs {
			if c.name() != rp.Model {
				continue
			}
			synctest.Test(t, func(t *testing.T) {
				m := newModel(c)
				for i, e := range rp.Path {
					fail := m.Apply(e)
					fmt.Printf("%2d %-12s -> %q  %s\n", i, alpha[e], fail, m.Key())
					if fail != "" {
						t.Fail()
					}
				}
				m.close()
			})
		}
		return
	}
	r.Rule = fmt.Sprintf("explicit-state BFS to depth %d over histories of {req(i), req with gateway early response, resp(i), proxy error(i), tick(1s), tick(3s)} on three transaction slots for concurrent quotas with max 1 and 2 (expiry 2 s, GC 1 s) through a real engine (Limiter, early-response branch, system flows, the quota's own GC goroutine) in virtual time; plus schedules of concurrent arrivals and response-vs-error; distinct = state keys (reference holders + quota dump)", depth)
	r.Assume("a slot must be free again no later than its expiry time plus one GC interval (the implementation releases expired slots at GC passes)",
		"in-flight = admitted, not ended and not yet expired")
	if r.Parallel(t, 16) {
		r.Finish(t)
		return
	}
	shard := 0
	for _, c := range cs {
		for first := range alpha {
			shard++
			if !r.Mine(shard) {
				continue
			}
			st, tr := mc.BFS(r, mc.BFSOpts{Name: c.name(), NEvents: len(alpha), MaxDepth: depth, Prefix: []int{first}, CheckPrefix: true,
				EvName: func(e int) string { return alpha[e].String() },
				Classify: func(fail string, _ []int) string {
					clause := strings.SplitN(fail, " ", 2)[0]
					if c.NarrowQuota {
						clause += ":quota-filter-does-not-cover-the-flow"
					}
					return clause
				},
				Run: func(body func(mc.Model)) {
					synctest.Test(t, func(t *testing.T) {
						m := newModel(c)
						body(m)
						m.close()
					})
				}})
			r.NonTrivial(fmt.Sprintf("%s first=%s states=%d", c.name(), alpha[first], st))
			r.Outcome(fmt.Sprintf("%s states=%d", c.name(), st))
			if first == 0 {
				r.Sample(map[string]any{"config": c.name(), "first_event": alpha[first].String(), "states": st, "transitions": tr})
			}
		}
	}
	r.Add("traces_validated_against_impl", r.Counters["transitions"])
	schedules(t, r)
	r.Finish(t)
}

func schedules(t *testing.T, r *mc.Run) {
	pre := mc.Pick(r, 2, 3)
	focus := []string{"lunar/engine/streams/resources", "lunar/engine/streams/lunar-context"}
	// (1) two arrivals compete for the single slot
	mc.Explore(t, r, &mc.SchedOpts{Name: "two-arrivals-one-slot", MaxPreempt: pre, MaxT: 0, Focus: focus,
		Body: func(x *mc.Exec) {
			m := newModel(cfg{Max: 1})
			x.Vals["m"] = m
			adm := new(int)
			x.Vals["adm"] = adm
			for i := 0; i < 2; i++ {
				nm := fmt.Sprintf("T%d", i)
				x.Go(nm, func() {
					v := eng.OnRequest(m.s, eng.Req{ID: nm, URL: "h.com/a"})
					if !v.Early {
						*adm++
					}
					x.Logf("%s -> %s", nm, v)
				})
			}
		},
		Teardown: func(x *mc.Exec) { x.Vals["m"].(*model).cancel() },
		Check: func(x *mc.Exec) (string, string) {
			if n := *x.Vals["adm"].(*int); n > 1 {
				return "OVER-ADMISSION:concurrent", fmt.Sprintf("%d concurrent arrivals were admitted under a concurrency quota of 1", n)
			} else if n == 0 {
				return "NONE-ADMITTED:concurrent", "two concurrent arrivals on a free quota of 1 were both refused"
			}
			return "", ""
		}})
	// (2) the response and a proxy error report of one holder race, a second transaction then probes
	mc.Explore(t, r, &mc.SchedOpts{Name: "response-vs-error-then-probe", MaxPreempt: pre, MaxT: 0, Focus: focus,
		Body: func(x *mc.Exec) {
			m := newModel(cfg{Max: 1})
			x.Vals["m"] = m
			eng.OnRequest(m.s, eng.Req{ID: "H", URL: "h.com/a"}) // holder, admitted sequentially
			x.Go("resp", func() { eng.OnResponse(m.s, eng.Resp{ID: "H", URL: "h.com/a", Status: 200}); x.Logf("resp done") })
			x.Go("err", func() { m.s.OnError("H"); x.Logf("err done") })
		},
		Teardown: func(x *mc.Exec) { x.Vals["m"].(*model).cancel() },
		Check: func(x *mc.Exec) (string, string) {
			m := x.Vals["m"].(*model)
			v1 := eng.OnRequest(m.s, eng.Req{ID: "P1", URL: "h.com/a"})
			v2 := eng.OnRequest(m.s, eng.Req{ID: "P2", URL: "h.com/a"})
			x.Logf("probe1 %s probe2 %s", v1, v2)
			if v1.Early {
				return "SLOT-LEAK:concurrent", "after the holder's response and error report both ran, a fresh request was refused"
			}
			if !v2.Early {
				return "OVER-ADMISSION:concurrent", "after a double release two probes were admitted under a quota of 1"
			}
			return "", ""
		}})
}
