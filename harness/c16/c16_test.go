// C16 — obfuscation hides every value that is not explicitly excluded.
// Engine: seqx product enumeration: all JSON documents of a bounded shape × all
// exclusion sets up to a size, both notations, through the real Obfuscator.ObfuscateJSON
// and the HAR collector's body path, compared leaf by leaf with an independent
// path matcher.
package c16

import (
	"encoding/json"
	"fmt"
	"runtime"
	"sort"
	"strings"
	"testing"

	lunarMessages "lunar/engine/messages"
	lunar_context "lunar/engine/streams/lunar-context"
	harcollector "lunar/engine/streams/processors/har-collector"
	streamtypes "lunar/engine/streams/types"
	"lunar/engine/utils/obfuscation"
	"verifharness/mc"
)

// ---- document generator -------------------------------------------------------------

type node struct {
	kind  byte // 'l' leaf, 'o' object, 'a' array
	leaf  string
	keys  []string
	elems []*node
}

func (n *node) json(sb *strings.Builder) {
	switch n.kind {
	case 'l':
		sb.WriteString(n.leaf)
	case 'o':
		sb.WriteByte('{')
		for i, k := range n.keys {
			if i > 0 {
				sb.WriteByte(',')
			}
			fmt.Fprintf(sb, "%q:", k)
			n.elems[i].json(sb)
		}
		sb.WriteByte('}')
	case 'a':
		sb.WriteByte('[')
		for i, e := range n.elems {
			if i > 0 {
				sb.WriteByte(',')
			}
			e.json(sb)
		}
		sb.WriteByte(']')
	}
}

var keyA, keyB = "a", "b"

func gen(depth int, leaves []string) []*node {
	var out []*node
	for _, l := range leaves {
		out = append(out, &node{kind: 'l', leaf: l})
	}
	if depth == 0 {
		return out
	}
	sub := gen(depth-1, leaves)
	for _, k := range []string{keyA, keyB} {
		for _, v := range sub {
			out = append(out, &node{kind: 'o', keys: []string{k}, elems: []*node{v}})
		}
	}
	for _, v := range sub {
		for _, w := range sub {
			out = append(out, &node{kind: 'o', keys: []string{keyA, keyB}, elems: []*node{v, w}})
		}
	}
	for _, v := range sub {
		out = append(out, &node{kind: 'a', elems: []*node{v}})
	}
	for _, v := range sub {
		for _, w := range sub {
			out = append(out, &node{kind: 'a', elems: []*node{v, w}})
		}
	}
	return out
}

// paths lists every node path of the document in the obfuscator's cursor notation.
func (n *node) paths(cur string, out *[]string) {
	if cur != "" {
		*out = append(*out, cur)
	}
	switch n.kind {
	case 'o':
		for i, k := range n.keys {
			n.elems[i].paths(cur+"."+k, out)
		}
	case 'a':
		for _, e := range n.elems {
			e.paths(cur+"[]", out)
		}
	}
}

// ---- reference ------------------------------------------------------------------------

// onOrUnder: exclusion e covers path p iff p == e or p continues e at a segment boundary.
func onOrUnder(p string, excl []string) bool {
	for _, e := range excl {
		if e == "" {
			continue
		}
		if p == e {
			return true
		}
		if strings.HasPrefix(p, e) && (p[len(e)] == '.' || p[len(e)] == '[') {
			return true
		}
	}
	return false
}

var obf = obfuscation.Obfuscator{Hasher: obfuscation.MD5Hasher{}}

// digestLeaf: a value that looks like the hasher's own output (an API key, a session id)
const digestLeaf = `"0123456789abcdef0123456789abcdef"`

var hashCache = map[string]string{}

// hashOf is what the obfuscator itself produces for that leaf when it stands alone
// (differential reference: no hand-written hash expectation).
func hashOf(leaf string) string {
	if h, ok := hashCache[leaf]; ok {
		return h
	}
	h, err := obf.ObfuscateJSON(leaf, nil)
	if err != nil {
		panic(err)
	}
	hashCache[leaf] = h
	return h
}

// compare walks input and output in lock step. excl is in cursor notation.
func compare(in *node, out any, cur string, excl []string) string {
	if cur == "" && in.kind == 'l' {
		// a bare top-level scalar has the empty cursor; exclusions cannot name it
	}
	switch in.kind {
	case 'o':
		m, ok := out.(map[string]any)
		if !ok {
			return fmt.Sprintf("structure changed at %q: object became %T", cur, out)
		}
		if len(m) != len(in.keys) {
			return fmt.Sprintf("structure changed at %q: key set differs", cur)
		}
		for i, k := range in.keys {
			v, ok := m[k]
			if !ok {
				return fmt.Sprintf("structure changed at %q: key %s lost", cur, k)
			}
			if d := compare(in.elems[i], v, cur+"."+k, excl); d != "" {
				return d
			}
		}
	case 'a':
		a, ok := out.([]any)
		if !ok {
			return fmt.Sprintf("structure changed at %q: array became %T", cur, out)
		}
		if len(a) != len(in.elems) {
			return fmt.Sprintf("structure changed at %q: array length %d -> %d", cur, len(in.elems), len(a))
		}
		for i, e := range in.elems {
			if d := compare(e, a[i], cur+"[]", excl); d != "" {
				return d
			}
		}
	case 'l':
		b, _ := json.Marshal(out)
		got := string(b)
		if onOrUnder(cur, excl) {
			if got != in.leaf {
				return fmt.Sprintf("EXCLUDED-CHANGED value on excluded path %q was not kept verbatim: %s -> %s", cur, in.leaf, got)
			}
			return ""
		}
		if in.leaf == "null" {
			return "" // the statement speaks of strings, numbers and booleans
		}
		if got == in.leaf {
			return fmt.Sprintf("EXPOSED value at %q (%s) is not excluded but was left in clear", cur, in.leaf)
		}
		if got != hashOf(in.leaf) {
			return fmt.Sprintf("WRONG-HASH value at %q (%s) was replaced by %s, not by its hash %s", cur, in.leaf, got, hashOf(in.leaf))
		}
	}
	return ""
}

type replay struct {
	Doc        string   `json:"doc"`
	Exclusions []string `json:"exclusions"`
	Via        string   `json:"via"`
}

// classify turns a failure into a known-findings key: which clause, through which entry
// point, and the relation between the exposed path and the exclusion that exposed it.
func classify(msg string, via string, excl []string) string {
	clause := strings.SplitN(msg, " ", 2)[0]
	return fmt.Sprintf("%s:%s", clause, via)
}

func TestCheck(t *testing.T) {
	r := mc.New("C16", "exploration")
	apiStream := streamtypes.NewRequestAPIStream(lunarMessages.OnRequest{ID: "1", Method: "GET", Scheme: "http",
		URL: "h.com/a", Path: "/a", Headers: map[string]string{}}, lunar_context.NewMemoryState[[]byte]())

	runOne := func(doc *node, docJSON string, excl []string, via string) string {
		var got string
		cursorExcl := excl
		switch via {
		case "plain":
			o, err := obf.ObfuscateJSON(docJSON, excl)
			if err != nil {
				return "ERROR ObfuscateJSON failed: " + err.Error()
			}
			got = o
		case "har-request", "har-response", "har-mixed":
			// The HAR collector receives ONE processor-wide exclusion list for all transactions;
			// run two transactions over the same slice and check both bodies of both.
			var full, reqExcl, respExcl []string
			for i, e := range excl {
				switch {
				case via == "har-request":
					full, reqExcl = append(full, "$.request.body"+e), append(reqExcl, e)
				case via == "har-response":
					full, respExcl = append(full, "$.response.body"+e), append(respExcl, e)
				case i%2 == 0: // mixed: response exclusion listed first
					full, respExcl = append(full, "$.response.body"+e), append(respExcl, e)
				default:
					full, reqExcl = append(full, "$.request.body"+e), append(reqExcl, e)
				}
			}
			if via == "har-mixed" && len(excl) == 1 {
				full, reqExcl = append(full, "$.request.body"+excl[0]), append(reqExcl, excl[0])
			}
			for txn := 1; txn <= 2; txn++ {
				rq, rs := harcollector.VerifObfuscateBodies(full, apiStream, docJSON, docJSON)
				for _, side := range []struct {
					name, out string
					ex        []string
				}{{"request", rq, reqExcl}, {"response", rs, respExcl}} {
					var ov any
					if err := json.Unmarshal([]byte(side.out), &ov); err != nil {
						return "ERROR output is not JSON: " + side.out
					}
					if d := compare(doc, ov, "", side.ex); d != "" {
						return fmt.Sprintf("%s [%s body, transaction %d, exclusion list %v]", d, side.name, txn, full)
					}
				}
			}
			return ""
		}
		var v any
		if err := json.Unmarshal([]byte(got), &v); err != nil {
			return "ERROR output is not JSON: " + got
		}
		return compare(doc, v, "", cursorExcl)
	}

	if f := mc.ReplayFile(); f != "" {
		var rp replay
		if err := mc.LoadReplay(f, &rp); err != nil {
			t.Fatal(err)
		}
		doc := parseDoc(rp.Doc)
		v := runOne(doc, rp.Doc, rp.Exclusions, rp.Via)
		fmt.Printf("replay doc=%s excl=%v via=%s -> %q\n", rp.Doc, rp.Exclusions, rp.Via, v)
		if v != "" {
			t.Fail()
		}
		return
	}

	leaves := mc.Pick(r, []string{`"s"`, `7`}, []string{`"s"`, `7`, `true`, `null`})
	maxSet := 2
	vias := []string{"plain", "har-request", "har-response", "har-mixed"}
	type family struct {
		docs     []*node
		universe []string
	}
	// two key alphabets: {a,b} (same name at different depths) and {a,A} (names differing
	// only in letter case: JSON keys are case sensitive)
	var fams []family
	for _, ks := range [][2]string{{"a", "b"}, {"a", "A"}} {
		keyA, keyB = ks[0], ks[1]
		var docs []*node
		if ks[1] == "b" {
			docs = append(docs, gen(2, leaves)...)
		} else {
			// (in this family the string leaf is shaped like a digest: 32 hex characters)
			docs = append(docs, gen(2, []string{digestLeaf, `7`})...)
		}
		// depth 3: wrap every depth-2 document in an object, a two-key object and an array
		for _, d := range gen(2, []string{`"s"`, `7`}) {
			if ks[1] != "b" && d.kind == 'l' {
				continue
			}
			docs = append(docs, &node{kind: 'o', keys: []string{keyA}, elems: []*node{d}})
			docs = append(docs, &node{kind: 'o', keys: []string{keyB, keyA}, elems: []*node{d, {kind: 'l', leaf: `true`}}})
			docs = append(docs, &node{kind: 'a', elems: []*node{d}})
		}
		// exclusion universe: every path over segments {.keyA,.keyB,[]} up to length 3 (the
		// document's own paths and the paths of its "siblings" are all among them)
		segs := []string{"." + keyA, "." + keyB, "[]"}
		var universe []string
		mc.Sequences(3, 3, func(idx []int) bool {
			if len(idx) == 0 {
				return true
			}
			p := ""
			for _, i := range idx {
				p += segs[i]
			}
			universe = append(universe, p)
			return true
		})
		// near-miss exclusions outside the document vocabulary (suffix / prefix collisions)
		universe = append(universe, ".xa", ".ab", ".a.ba", "a", ".a.", ".b.a.a.a")
		sort.Slice(universe, func(i, j int) bool {
			if len(universe[i]) != len(universe[j]) {
				return len(universe[i]) < len(universe[j])
			}
			return universe[i] < universe[j]
		})
		fams = append(fams, family{docs, universe})
	}
	r.Rule = fmt.Sprintf("all JSON documents over keys {a,b} and {a,A}, leaves %v, arrays of length 1-2, nesting depth <=2 plus depth-3 wrappers (%d+%d documents) x exclusion sets of size 0..%d from a %d-path universe (pairs restricted to sets containing at least one path of the document in the quick tier) x entry points %v (HAR collector: processor-wide exclusion list shared by two consecutive transactions, request and response bodies both checked); non-trivial = at least one leaf of the document is covered by an exclusion and at least one is not; distinct = (document, exclusion set, entry point)", leaves, len(fams[0].docs), len(fams[1].docs), maxSet, len(fams[0].universe), vias)
	r.Assume("encoding/json is used to parse the obfuscator's output", "null leaves off excluded paths are not asserted (the statement lists strings, numbers, booleans)",
		"exclusion array notation is the cursor notation '[]' in both notations (what the code and its tests use)")

	if r.Parallel(t, 16) {
		r.Finish(t)
		return
	}
	di := -1
	evals := 0
	for _, fam := range fams {
		universe := fam.universe
		for _, doc := range fam.docs {
			di++
			if !r.Mine(di) {
				continue
			}
			var sb strings.Builder
			doc.json(&sb)
			docJSON := sb.String()
			var own []string
			doc.paths("", &own)
			ownSet := map[string]bool{}
			for _, p := range own {
				ownSet[p] = true
			}
			var leafPaths []string
			collectLeafPaths(doc, "", &leafPaths)
			mc.Subsets(len(universe), 0, maxSet, func(s []int) bool {
				excl := make([]string, len(s))
				touches := false
				for i, k := range s {
					excl[i] = universe[k]
					if ownSet[universe[k]] {
						touches = true
					}
				}
				if len(s) == 2 && !touches && !r.Thorough() {
					return true
				}
				cov, unc := 0, 0
				for _, lp := range leafPaths {
					if onOrUnder(lp, excl) {
						cov++
					} else {
						unc++
					}
				}
				for _, via := range vias {
					if via != "plain" && len(s) == 2 && !r.Thorough() && di%4 != 0 {
						continue
					}
					r.Add("evaluations", 1)
					if evals++; evals%20000 == 0 {
						// the obfuscator returns its fastjson arena to a sync.Pool without
						// resetting it, so the arena grows with every call (17 KB per evaluation
						// here); two collections while it sits in the pool make the pool drop it
						runtime.GC()
						runtime.GC()
					}
					v := runOne(doc, docJSON, excl, via)
					if cov > 0 && unc > 0 {
						r.NonTrivial(docJSON + "|" + strings.Join(excl, ",") + "|" + via)
						if len(s) == 2 && di%97 == 5 && via == "plain" {
							r.Sample(map[string]any{"doc": docJSON, "exclusions": excl, "via": via, "verdict": "ok:" + fmt.Sprint(v == "")})
						}
					}
					if v == "" {
						r.Outcome(fmt.Sprintf("ok cov>0=%v unc>0=%v", cov > 0, unc > 0))
						continue
					}
					r.Outcome("violation " + strings.SplitN(v, " ", 2)[0])
					r.Violation(classify(v, via, excl), fmt.Sprintf("doc=%s exclusions=%v via=%s: %s", docJSON, excl, via, v),
						replay{docJSON, excl, via})
				}
				return true
			})
		}
	}
	r.Finish(t)
}

func collectLeafPaths(n *node, cur string, out *[]string) {
	switch n.kind {
	case 'l':
		*out = append(*out, cur)
	case 'o':
		for i, k := range n.keys {
			collectLeafPaths(n.elems[i], cur+"."+k, out)
		}
	case 'a':
		for _, e := range n.elems {
			collectLeafPaths(e, cur+"[]", out)
		}
	}
}

// parseDoc rebuilds a node tree from JSON text (replay mode); key order is preserved
// by decoding token-wise.
func parseDoc(s string) *node {
	dec := json.NewDecoder(strings.NewReader(s))
	dec.UseNumber()
	var rec func() *node
	rec = func() *node {
		tok, err := dec.Token()
		if err != nil {
			panic(err)
		}
		switch v := tok.(type) {
		case json.Delim:
			if v == '{' {
				n := &node{kind: 'o'}
				for dec.More() {
					k, _ := dec.Token()
					n.keys = append(n.keys, k.(string))
					n.elems = append(n.elems, rec())
				}
				dec.Token()
				return n
			}
			n := &node{kind: 'a'}
			for dec.More() {
				n.elems = append(n.elems, rec())
			}
			dec.Token()
			return n
		case string:
			b, _ := json.Marshal(v)
			return &node{kind: 'l', leaf: string(b)}
		case json.Number:
			return &node{kind: 'l', leaf: v.String()}
		case bool:
			return &node{kind: 'l', leaf: fmt.Sprint(v)}
		case nil:
			return &node{kind: 'l', leaf: "null"}
		}
		panic("bad token")
	}
	return rec()
}
