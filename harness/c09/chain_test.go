package c09

// Chain family: the throttling remedy as the last remedy of a policy-mode chain, run by the
// real runner.runOnRequest with the real plugins.  Whatever remedies precede it (OAuth /
// API-key / basic authentication, which edit or regenerate the request but let it through),
// at most the allowed number of requests of one aligned window come back without the
// configured rejection, and handled one at a time exactly the first `allowed` do.

import (
	"context"
	"fmt"
	"strings"
	"testing"
	"testing/synctest"
	"time"

	"lunar/engine/actions"
	"lunar/engine/config"
	lunarMessages "lunar/engine/messages"
	"lunar/engine/runner"
	"lunar/engine/services"
	"lunar/engine/services/remedies"
	"lunar/engine/utils/limit"
	"lunar/engine/utils/obfuscation"
	sharedConfig "lunar/shared-model/config"
	"lunar/toolkit-core/clock"
	"lunar/toolkit-core/logging"
	"verifharness/mc"
)

type chainReplay struct {
	Family  string   `json:"family"`
	Before  []string `json:"remedies_before_throttling"`
	Allowed int64    `json:"allowed"`
}

func chainFamily(t *testing.T, r *mc.Run) {
	accounts := map[sharedConfig.AccountID]sharedConfig.Account{
		"oauth": {Authentication: sharedConfig.Authentication{OAuth: &sharedConfig.OAuth{Tokens: []sharedConfig.Body{{Name: "client_secret", Value: "s"}}}}},
		"key1":  {Authentication: sharedConfig.Authentication{APIKey: &sharedConfig.APIKey{Tokens: []sharedConfig.Header{{Name: "x-api-key", Value: "k1"}}}}},
		"basic": {Authentication: sharedConfig.Authentication{Basic: &sharedConfig.BasicAuth{Username: "u", Password: "p"}}},
	}
	auth := func(acc string) config.ScopedRemedy {
		return config.ScopedRemedy{Method: "POST", NormalizedURL: "h.com/token", Remedy: &sharedConfig.Remedy{Name: "auth-" + acc, Enabled: true,
			Config: sharedConfig.RemedyConfig{Authentication: &sharedConfig.AuthConfig{Account: sharedConfig.AccountID(acc)}}}}
	}
	names := []string{"oauth", "key1", "basic"}
	mc.Sequences(len(names), 2, func(ix []int) bool {
		for allowed := int64(1); allowed <= 2; allowed++ {
			var before []string
			var chain []config.ScopedRemedy
			for _, i := range ix {
				before = append(before, names[i])
				chain = append(chain, auth(names[i]))
			}
			chain = append(chain, config.ScopedRemedy{Method: "POST", NormalizedURL: "h.com/token", Remedy: &sharedConfig.Remedy{Name: "throttle", Enabled: true,
				Config: sharedConfig.RemedyConfig{StrategyBasedThrottling: &sharedConfig.StrategyBasedThrottlingConfig{AllowedRequestCount: allowed, WindowSizeInSeconds: 10, ResponseStatusCode: 429}}}})
			var verdicts []string
			synctest.Test(t, func(t *testing.T) {
				clk := clock.NewRealClock()
				st := limit.NewRateLimitState(clk, logging.ContextLogger{})
				thr, err := remedies.NewStrategyBasedThrottlingPlugin(context.Background(), clk, nil, st, obfuscation.Obfuscator{Hasher: obfuscation.MD5Hasher{}})
				if err != nil {
					panic(err)
				}
				plugins := &services.RemedyPlugins{AuthPlugin: remedies.NewAuthPlugin(), StrategyBasedThrottlingPlugin: thr}
				for i := 0; i < int(allowed)+2; i++ {
					args := lunarMessages.OnRequest{ID: fmt.Sprint(i), SequenceID: fmt.Sprint(i), Method: "POST", Scheme: "https", URL: "h.com/token", Path: "/token",
						Headers: map[string]string{"host": "h.com"}, Body: `{"grant_type":"client_credentials"}`}
					act, err := runner.VerifRunOnRequest(args, chain, plugins, accounts)
					switch a := act.(type) {
					case *actions.EarlyResponseAction:
						verdicts = append(verdicts, fmt.Sprintf("rejected(%d)", a.Status))
					default:
						if err != nil {
							verdicts = append(verdicts, "error:"+err.Error())
						} else {
							verdicts = append(verdicts, "passed")
						}
					}
					time.Sleep(time.Second)
				}
			})
			r.Add("chain_cases", 1)
			r.NonTrivial(fmt.Sprintf("chain|%v|%d", before, allowed))
			var want []string
			for i := 0; i < int(allowed)+2; i++ {
				if int64(i) < allowed {
					want = append(want, "passed")
				} else {
					want = append(want, "rejected(429)")
				}
			}
			if strings.Join(verdicts, ",") != strings.Join(want, ",") {
				r.Violation("CHAIN:throttling-after-other-remedies", fmt.Sprintf("policy-mode chain %v + throttling(allowed %d per 10 s): %d requests one second apart inside one aligned window got %v, expected %v", before, allowed, allowed+2, verdicts, want),
					chainReplay{"chain", before, allowed})
			}
			r.Outcome("chain:" + strings.Join(verdicts, ","))
		}
		return true
	})
}
