package c09

// Names family: the counters are keyed by the remedy name, so a name has to stand for one
// remedy.  Every placement of throttling remedies named n1 / n2 / (none) on two endpoints and
// the global scope (27 policy configurations) is given to the real validator; a configuration
// it accepts is run through the real policy tree and dispatcher for every request history of
// length <= 4 over {endpoint 1, endpoint 2, a host only the global policies apply to}, all in
// one window, against one reference counter per configured remedy (not per name): traffic of
// one remedy must never use up another remedy's share.

import (
	"context"
	"fmt"
	"strings"
	"sync"
	"testing"
	"testing/synctest"
	"time"

	"lunar/engine/config"
	lunarMessages "lunar/engine/messages"
	"lunar/engine/runner"
	"lunar/engine/services"
	"lunar/engine/services/remedies"
	"lunar/engine/utils/limit"
	"lunar/engine/utils/obfuscation"
	sharedConfig "lunar/shared-model/config"
	"lunar/toolkit-core/clock"
	"lunar/toolkit-core/logging"
	"verifharness/mc"

	"github.com/negasus/haproxy-spoe-go/action"
)

type namesReplay struct {
	Family    string   `json:"family"`
	Placement []string `json:"remedy_name_on_endpoint1_endpoint2_global"`
	History   []string `json:"requests"`
}

var registerValidation sync.Once

func namesFamily(t *testing.T, r *mc.Run) {
	registerValidation.Do(func() {
		// what HandlingDataManager.initializePolicies registers before it reads a policies file
		sharedConfig.Validate.RegisterStructValidation(config.ValidateStructLevel, sharedConfig.Remedy{}, sharedConfig.Diagnosis{}, sharedConfig.PoliciesConfig{})
		_ = sharedConfig.Validate.RegisterValidation("validateInt", config.ValidateInt)
	})
	names := []string{"", "n1", "n2"}
	allowedOf := []int64{1, 2, 1} // endpoint 1, endpoint 2, global
	throttle := func(name string, allowed int64) sharedConfig.Remedy {
		return sharedConfig.Remedy{Enabled: true, Name: name, Config: sharedConfig.RemedyConfig{
			StrategyBasedThrottling: &sharedConfig.StrategyBasedThrottlingConfig{AllowedRequestCount: allowed, WindowSizeInSeconds: 3600, ResponseStatusCode: 429}}}
	}
	targets := []struct{ name, url, path, host string }{
		{"endpoint1", "a.com/one", "/one", "a.com"}, {"endpoint2", "b.com/two", "/two", "b.com"}, {"global-only", "c.com/x", "/x", "c.com"}}
	for code := 0; code < 27; code++ {
		pl := []int{code % 3, code / 3 % 3, code / 9}
		placement := []string{names[pl[0]], names[pl[1]], names[pl[2]]}
		build := func() *sharedConfig.PoliciesConfig {
			pc := &sharedConfig.PoliciesConfig{Accounts: map[sharedConfig.AccountID]sharedConfig.Account{},
				Global: sharedConfig.Global{Remedies: []sharedConfig.Remedy{}, Diagnosis: []sharedConfig.Diagnosis{}}}
			for i := 0; i < 2; i++ {
				ep := sharedConfig.EndpointConfig{URL: targets[i].url, Method: "GET", Remedies: []sharedConfig.Remedy{}, Diagnosis: []sharedConfig.Diagnosis{}}
				if placement[i] != "" {
					ep.Remedies = append(ep.Remedies, throttle(placement[i], allowedOf[i]))
				}
				pc.Endpoints = append(pc.Endpoints, ep)
			}
			if placement[2] != "" {
				pc.Global.Remedies = append(pc.Global.Remedies, throttle(placement[2], allowedOf[2]))
			}
			return pc
		}
		r.Add("name_placements", 1)
		if err := config.Validate(build()); err != nil {
			r.Outcome("names: configuration refused")
			continue
		}
		r.Outcome("names: configuration accepted")
		mc.Sequences(3, 4, func(h []int) bool {
			if len(h) == 0 {
				return true
			}
			var hist []string
			for _, x := range h {
				hist = append(hist, targets[x].name)
			}
			fail := ""
			synctest.Test(t, func(t *testing.T) {
				pc := build()
				tree, err := config.BuildEndpointPolicyTree(pc.Endpoints)
				if err != nil {
					fail = "ERROR policy tree: " + err.Error()
					return
				}
				clk := clock.NewRealClock()
				st := limit.NewRateLimitState(clk, logging.ContextLogger{})
				thr, err := remedies.NewStrategyBasedThrottlingPlugin(context.Background(), clk, nil, st, obfuscation.Obfuscator{Hasher: obfuscation.MD5Hasher{}})
				if err != nil {
					panic(err)
				}
				svc := &services.PoliciesServices{Remedies: services.RemedyPlugins{StrategyBasedThrottlingPlugin: thr}}
				worker := runner.NewDiagnosisWorker()
				time.Sleep(20 * time.Minute) // the middle of an aligned window
				passed := [3]int64{}          // per configured remedy (endpoint 1, endpoint 2, global)
				for i, x := range h {
					tg := targets[x]
					acts, err := runner.DispatchOnRequest(lunarMessages.OnRequest{ID: fmt.Sprint(i), SequenceID: fmt.Sprint(i), Method: "GET", Scheme: "https",
						URL: tg.url, Path: tg.path, Headers: map[string]string{"host": tg.host}, Time: time.Now()}, tree, pc, svc, worker)
					if err != nil {
						fail = "ERROR " + err.Error()
						return
					}
					rejected := false
					for _, a := range acts {
						if a.Type == action.TypeSetVar && a.Name == "return_early_response" {
							rejected = true
						}
					}
					// reference: the remedies of this request's scope, each with its own counter
					var scope []int
					if x < 2 && placement[x] != "" {
						scope = append(scope, x)
					}
					if placement[2] != "" {
						scope = append(scope, 2)
					}
					want := false
					for _, k := range scope {
						if passed[k] >= allowedOf[k] {
							want = true
						} else {
							passed[k]++
						}
					}
					if rejected != want {
						if rejected {
							fail = fmt.Sprintf("SPURIOUS-REJECT:other-remedy request %d (%s) was rejected although no remedy of its scope had used up its share (passed so far per remedy endpoint1/endpoint2/global: %v)", i+1, tg.name, passed)
						} else {
							fail = fmt.Sprintf("OVER-LIMIT:names request %d (%s) passed although a remedy of its scope had used up its share (%v)", i+1, tg.name, passed)
						}
						return
					}
				}
			})
			r.Add("name_histories", 1)
			if len(h) > 1 {
				r.NonTrivial("names|" + strings.Join(placement, ",") + "|" + strings.Join(hist, ","))
			}
			if fail != "" {
				r.Violation(strings.SplitN(fail, " ", 2)[0], fmt.Sprintf("policies with throttling remedies named %q on endpoint 1, %q on endpoint 2, %q global (accepted by the validator), requests %v in one window: %s",
					placement[0], placement[1], placement[2], hist, fail), namesReplay{"names", placement, hist})
			}
			return true
		})
	}
}
