// C09 — policy-mode throttling never exceeds the allowed count per aligned window.
// Engines: (1) seqx history BFS (explicit state) over the real
// StrategyBasedThrottlingPlugin.OnRequest + limit.RateLimitState in a virtual-time
// bubble against a grid-window reference counter; (2) an exhaustive allocation table;
// (3) schedx: all schedules of concurrent first requests on one key.
package c09

import (
	"context"
	"fmt"
	"regexp"
	"sort"
	"strings"
	"testing"
	"testing/synctest"
	"time"

	"lunar/engine/actions"
	"lunar/engine/config"
	lunarMessages "lunar/engine/messages"
	"lunar/engine/services/remedies"
	"lunar/engine/utils/limit"
	"lunar/engine/utils/obfuscation"
	sharedConfig "lunar/shared-model/config"
	"lunar/toolkit-core/clock"
	"lunar/toolkit-core/logging"
	"verifharness/mc"
)

type cfg struct {
	Allowed int64
	W       int    // seconds
	Alloc   string // "none" | "allow" | "block" | "default25"
	// Resize: the alphabet has an event that changes remedy r1's window size (W <-> 2W), as a
	// policy reload between two requests does
	Resize bool
	// Realloc: the alphabet has an event that changes remedy r1's allocation table (the shares
	// of groups A and B swap: 50/25 <-> 25/50) under the same remedy name, as a policy reload does
	Realloc bool
	// Prefill: the history starts after this many other groups of remedy r2 have each sent a
	// request (a start state with many tracked keys); the alphabet then has a request of a
	// group never seen before and a clock step of 61 minutes
	Prefill int
}

func (c cfg) String() string {
	s := fmt.Sprintf("allowed=%d W=%ds alloc=%s", c.Allowed, c.W, c.Alloc)
	if c.Resize {
		s += " +window-size-changes"
	}
	if c.Realloc {
		s += " +allocation-table-changes"
	}
	if c.Prefill > 0 {
		s += fmt.Sprintf(" start=%d-other-groups-tracked", c.Prefill)
	}
	return s
}

var groups = []string{"A", "B", "Z", "a", ""} // Z = unknown value, a = unknown value that differs from a listed one only in case, "" = header absent
var pct = map[string]int64{"A": 50, "B": 25}

// freshGroup stands for a group header value no earlier request carried
const freshGroup = "<new>"

type event struct {
	kind   string // "req" | "tick" | "resize"
	remedy int
	group  string
	tick   string // "half" | "boundary" | "1ns" | "W"
}

func (e event) String() string {
	if e.kind == "req" {
		g := e.group
		if g == "" {
			g = "-"
		}
		return fmt.Sprintf("req(r%d,%s)", e.remedy+1, g)
	}
	if e.kind == "resize" {
		return "resize(r1: W<->2W)"
	}
	if e.kind == "realloc" {
		return "realloc(r1: shares of A and B swap)"
	}
	if e.kind == "burst" {
		return "burst(r2: as many new groups again as the start state tracks)"
	}
	return "tick(" + e.tick + ")"
}

func alphabet(c cfg) []event {
	var ev []event
	gs := groups
	if c.Alloc == "none" {
		gs = []string{""}
	}
	for r := 0; r < 2; r++ {
		for _, g := range gs {
			ev = append(ev, event{kind: "req", remedy: r, group: g})
		}
	}
	if c.Prefill > 0 {
		ev = []event{{kind: "req", remedy: 0, group: "A"}, {kind: "req", remedy: 1, group: freshGroup}, {kind: "burst"},
			{kind: "tick", tick: "61m"}, {kind: "tick", tick: "boundary"}}
		return ev
	}
	if c.Resize {
		// fewer letters elsewhere: one unlisted group value is enough here
		var keep []event
		for _, e := range ev {
			if e.group != "a" && e.group != "B" {
				keep = append(keep, e)
			}
		}
		ev = append(keep, event{kind: "resize"})
	}
	if c.Realloc {
		var keep []event
		for _, e := range ev {
			if e.group != "a" && e.group != "" {
				keep = append(keep, e)
			}
		}
		ev = append(keep, event{kind: "realloc"})
	}
	for _, t := range []string{"boundary", "1ns", "half", "W"} {
		ev = append(ev, event{kind: "tick", tick: t})
	}
	return ev
}

func remedy(c cfg, i int) *sharedConfig.Remedy {
	tc := &sharedConfig.StrategyBasedThrottlingConfig{AllowedRequestCount: c.Allowed + int64(i), WindowSizeInSeconds: c.W, ResponseStatusCode: 429}
	if c.Alloc != "none" {
		ga := &sharedConfig.GroupQuotaAllocation{GroupBy: &sharedConfig.GroupBy{HeaderName: "x-g"},
			Groups: []sharedConfig.QuotaAllocation{{GroupHeaderValue: "A", AllocationPercentage: 50}, {GroupHeaderValue: "B", AllocationPercentage: 25}}}
		switch c.Alloc {
		case "allow":
			ga.Default = "allow"
		case "block":
			ga.Default = "block"
		case "default25":
			ga.Default = "use_default_allocation"
			ga.DefaultAllocationPercentage = 25
		}
		tc.GroupQuotaAllocation = ga
	}
	return &sharedConfig.Remedy{Enabled: true, Name: fmt.Sprintf("r%d", i+1), Config: sharedConfig.RemedyConfig{StrategyBasedThrottling: tc}}
}

func ceilPct(n, p int64) int64 { return (n*p + 99) / 100 }

// model = real plugin + reference counters per (remedy, group, grid window).
type model struct {
	c       cfg
	alpha   []event
	plugin  *remedies.StrategyBasedThrottlingPlugin
	state   limit.IncrementableRateLimitState
	rem     [2]*sharedConfig.Remedy
	ref     map[string]int64 // "remedy/group" -> passes in window refWin[key]
	refWin  map[string]int64
	nextReq int
	// window-size changes of r1: its current size, the instant of the last change, the first
	// grid boundary of the new size after it, and the passes since the change per group
	w0       time.Duration
	resizes  int                  // number of size changes so far
	seen     map[string]int       // per (remedy, group): the number of changes it has been asked under
	resumeAt map[string]time.Time // per (remedy, group): end of its transition (see Apply)
	since    map[string][]time.Time
	fresh    int
	swapped  bool // r1's allocation table currently gives A 25% and B 50%
}

func newModel(c cfg) *model {
	clk := clock.NewRealClock()
	st := limit.NewRateLimitState(clk, logging.ContextLogger{})
	p, err := remedies.NewStrategyBasedThrottlingPlugin(context.Background(), clk, nil, st, obfuscation.Obfuscator{Hasher: obfuscation.MD5Hasher{}})
	if err != nil {
		panic(err)
	}
	return &model{c: c, alpha: alphabet(c), plugin: p, state: st, rem: [2]*sharedConfig.Remedy{remedy(c, 0), remedy(c, 1)},
		ref: map[string]int64{}, refWin: map[string]int64{}, w0: time.Duration(c.W) * time.Second, since: map[string][]time.Time{}, seen: map[string]int{}, resumeAt: map[string]time.Time{}}
}

// wOf: the window size remedy i is configured with right now
func (m *model) wOf(i int) time.Duration {
	if i == 0 {
		return m.w0
	}
	return m.W()
}

func (m *model) W() time.Duration { return time.Duration(m.c.W) * time.Second }

// prefill: other groups of remedy r2 send one request each (not part of the checked history,
// but run through the same reference so that the reference knows their counters)
func (m *model) prefill() {
	for i := 0; i < m.c.Prefill; i++ {
		if fail := m.apply(event{kind: "req", remedy: 1, group: fmt.Sprintf("o%d", i)}); fail != "" {
			panic("prefill: " + fail)
		}
	}
}

func (m *model) Apply(ei int) string { return m.apply(m.alpha[ei]) }

func (m *model) apply(e event) string {
	if e.kind == "burst" {
		// as many requests of groups never seen before as the start state tracks (the number
		// of tracked keys doubles): each is checked like any other request
		for i := 0; i < m.c.Prefill; i++ {
			if fail := m.apply(event{kind: "req", remedy: 1, group: freshGroup}); fail != "" {
				return fail
			}
		}
		return ""
	}
	if e.kind == "tick" {
		var d time.Duration
		switch e.tick {
		case "half":
			d = m.W() / 2
		case "W":
			d = m.W()
		case "61m":
			d = 61 * time.Minute
		case "1ns":
			d = time.Nanosecond
		case "boundary":
			into := time.Duration(time.Now().UnixNano()) % m.W()
			d = m.W() - into
		}
		time.Sleep(d)
		return ""
	}
	if e.kind == "realloc" {
		// a reload builds a new remedy object with the same name and another table
		m.swapped = !m.swapped
		a, b := float64(50), float64(25)
		if m.swapped {
			a, b = 25, 50
		}
		nr := remedy(m.c, 0)
		nr.Config.StrategyBasedThrottling.GroupQuotaAllocation.Groups = []sharedConfig.QuotaAllocation{{GroupHeaderValue: "A", AllocationPercentage: a}, {GroupHeaderValue: "B", AllocationPercentage: b}}
		m.rem[0] = nr
		return ""
	}
	if e.kind == "resize" {
		if m.w0 == m.W() {
			m.w0 = 2 * m.W()
		} else {
			m.w0 = m.W()
		}
		m.rem[0].Config.StrategyBasedThrottling.WindowSizeInSeconds = int(m.w0 / time.Second)
		m.resizes++
		return ""
	}
	if e.group == freshGroup {
		m.fresh++
		e.group = fmt.Sprintf("n%d", m.fresh)
	}
	m.nextReq++
	hs := map[string]string{}
	if e.group != "" {
		hs["x-g"] = e.group
	}
	act, err := m.plugin.OnRequest(lunarMessages.OnRequest{ID: fmt.Sprint(m.nextReq), Headers: hs}, config.ScopedRemedy{Remedy: m.rem[e.remedy]})
	if err != nil {
		return "ERROR OnRequest failed: " + err.Error()
	}
	blocked := false
	if er, ok := act.(*actions.EarlyResponseAction); ok {
		blocked = true
		if er.Status != 429 {
			return fmt.Sprintf("STATUS rejection carries status %d, configured 429", er.Status)
		}
	}
	// reference
	allowed := m.c.Allowed + int64(e.remedy)
	var lim int64
	counted := true
	share := pct[e.group]
	if m.swapped && e.remedy == 0 && share != 0 {
		share = 75 - share // the table in force: the limit of a request is the share configured now
	}
	switch {
	case m.c.Alloc == "none":
		lim = allowed
	case share != 0:
		lim = ceilPct(allowed, share)
	case m.c.Alloc == "allow":
		counted = false
		if blocked {
			return fmt.Sprintf("DEFAULT-ALLOW request of unlisted group %q was rejected", e.group)
		}
	case m.c.Alloc == "block":
		counted = false
		if !blocked {
			return fmt.Sprintf("DEFAULT-BLOCK request of unlisted group %q passed", e.group)
		}
	default:
		lim = ceilPct(allowed, 25)
	}
	if !counted {
		return ""
	}
	key := fmt.Sprintf("r%d/%s", e.remedy+1, e.group)
	if now := time.Now(); e.remedy == 0 && m.resizes > 0 {
		if m.seen[key] != m.resizes {
			// the first request of this (remedy, group) since the size changed: the state
			// learns of the change now; what it counted under the old size may stay counted
			// until the aligned window of the new size that contains this request ends
			m.seen[key] = m.resizes
			m.resumeAt[key] = time.Unix(0, (now.UnixNano()/int64(m.w0)+1)*int64(m.w0))
			m.since[key] = nil
			delete(m.ref, key)
			delete(m.refWin, key)
		}
		if now.Before(m.resumeAt[key]) {
			// transition: only the bound is asserted, on the requests handled since the
			// change: those that passed inside the current aligned window of the new size
			// must stay within the share
			ws := time.Unix(0, now.UnixNano()/int64(m.w0)*int64(m.w0))
			n := int64(0)
			for _, ts := range m.since[key] {
				if !ts.Before(ws) {
					n++
				}
			}
			if !blocked {
				if n >= lim {
					return fmt.Sprintf("OVER-LIMIT:after-window-size-change %s passed at +%v into the aligned %v window: %d of %d requests handled since r1's window size changed had already passed in that window", e, now.Sub(ws), m.w0, n, lim)
				}
				m.since[key] = append(m.since[key], now)
			}
			return ""
		}
	}
	win := time.Now().UnixNano() / int64(m.wOf(e.remedy))
	if m.refWin[key] != win {
		m.refWin[key], m.ref[key] = win, 0
	}
	wantBlocked := m.ref[key] >= lim
	into := time.Duration(time.Now().UnixNano() % int64(m.wOf(e.remedy)))
	if blocked != wantBlocked {
		if blocked {
			return fmt.Sprintf("SPURIOUS-REJECT %s rejected at +%v into grid window %d although only %d of %d passed in it", e, into, win, m.ref[key], lim)
		}
		return fmt.Sprintf("OVER-LIMIT %s passed at +%v into grid window %d although %d of %d had already passed in it", e, into, win, m.ref[key], lim)
	}
	if !blocked {
		m.ref[key]++
	}
	return ""
}

func (m *model) Key() string {
	now := time.Now()
	var rs []string
	for k, v := range m.ref {
		w := m.W()
		if strings.HasPrefix(k, "r1/") {
			w = m.w0
		}
		if m.refWin[k] == now.UnixNano()/int64(w) {
			rs = append(rs, fmt.Sprintf("%s=%d", k, v))
		}
	}
	sort.Strings(rs)
	rz := ""
	if m.c.Resize {
		rz = fmt.Sprintf("|w0=%v", m.w0)
		var ps []string
		for k, g := range m.seen {
			if g != m.resizes {
				continue
			}
			if ra := m.resumeAt[k]; now.Before(ra) {
				ps = append(ps, fmt.Sprintf("%s:resume-in=%v", k, ra.Sub(now)))
				for _, ts := range m.since[k] {
					ps = append(ps, fmt.Sprintf("%s@%v", k, now.Sub(ts)))
				}
			} else {
				ps = append(ps, k+":settled")
			}
		}
		sort.Strings(ps)
		rz += "," + strings.Join(ps, ",")
	}
	if m.c.Realloc {
		rz += fmt.Sprintf("|swapped=%v", m.swapped)
	}
	key := fmt.Sprintf("phase=%d|%s|%s%s", now.UnixNano()%int64(2*m.W()), limit.VerifDump(m.state, now), strings.Join(rs, ","), rz)
	if m.c.Prefill > 0 {
		key = collapseOthers(key)
	}
	return key
}

var otherRe = regexp.MustCompile(`r2/[^;,|]*o\d+([:=][^;,|]*)`)

// collapseOthers replaces the entries of the pre-filled groups by one entry per distinct value
// with its multiplicity (no event of the alphabet names one of them).
func collapseOthers(key string) string {
	count := map[string]int{}
	out := otherRe.ReplaceAllStringFunc(key, func(m string) string {
		count[otherRe.FindStringSubmatch(m)[1]]++
		return ""
	})
	var cs []string
	for k, n := range count {
		cs = append(cs, fmt.Sprintf("o*%sx%d", k, n))
	}
	sort.Strings(cs)
	return strings.NewReplacer(";;", ";", ",,", ",").Replace(out) + "|others:" + strings.Join(cs, ";")
}

func configs() []cfg {
	var cs []cfg
	for _, a := range []int64{1, 2, 3} {
		for _, w := range []int{1, 2} {
			for _, al := range []string{"none", "allow", "block", "default25"} {
				cs = append(cs, cfg{Allowed: a, W: w, Alloc: al})
			}
		}
	}
	// window-size changes between requests
	for _, a := range []int64{1, 2} {
		for _, w := range []int{1, 2} {
			for _, al := range []string{"none", "default25"} {
				cs = append(cs, cfg{Allowed: a, W: w, Alloc: al, Resize: true})
			}
		}
	}
	// allocation-table changes between requests
	for _, a := range []int64{3, 4} {
		for _, w := range []int{1, 2} {
			for _, al := range []string{"block", "default25"} {
				cs = append(cs, cfg{Allowed: a, W: w, Alloc: al, Realloc: true})
			}
		}
	}
	// a non-initial start state: 12000 other groups are tracked; a two-hour window
	cs = append(cs, cfg{Allowed: 2, W: 7200, Alloc: "default25", Prefill: 12000})
	// a window length that does not divide a day (grid origin matters)
	for _, a := range []int64{1, 2} {
		for _, al := range []string{"none", "default25"} {
			cs = append(cs, cfg{Allowed: a, W: 7, Alloc: al})
		}
	}
	return cs
}

func TestCheck(t *testing.T) {
	r := mc.New("C09", "model_checking")
	depth := mc.Pick(r, 6, 8)
	cs := configs()
	if f := mc.ReplayFile(); f != "" {
		replayFile(t, r, f)
		return
	}
	r.Rule = fmt.Sprintf("explicit-state BFS to depth %d over histories of {req(remedy r1|r2, group A|B|Z|absent), tick(to the next grid boundary exactly | 1ns | W/2 | W)} for %d configurations (allowed 1-3, W 1, 2 and 7 s, allocation none / table with default allow|block|use_default_allocation); every transition runs the real plugin (fresh instance + replay) in a virtual-time bubble; plus the throttling remedy at the end of every policy-mode chain of <=2 authentication remedies through the real runner; plus every placement of throttling remedies named n1|n2|none on two endpoints and the global scope (27) given to the real validator, the accepted ones run through the real policy tree and dispatcher for all request histories <=4 over the three scopes against one reference counter per configured remedy; plus the exhaustive allocation table allowed 1..300 x pct 1..100 and all schedules (<=2 preemptions) of 3 concurrent first requests on one key; distinct = state keys (implementation dump + reference + phase)", depth, len(cs))
	r.Assume("allocation-table changes (8 further configurations: the shares of groups A and B of r1 swap under the same remedy name): the limit of a request is the share configured when it is handled, what was counted stays counted", "window-size changes (8 further configurations: r1's window toggles between W and 2W): per (remedy, group), from the change until the end of the aligned window of the new size that contains its first request after the change, only the bound is asserted (on the requests handled since the change); after that full exactness", "virtual time via testing/synctest; the plugin's clock is clock.RealClock inside the bubble")
	if r.Parallel(t, 16) {
		r.Finish(t)
		return
	}
	for ci, c := range cs {
		if !r.Mine(ci) {
			continue
		}
		al := alphabet(c)
		depth := depth
		if c.Prefill > 0 {
			depth = mc.Pick(r, 4, 5)
		}
		st, _ := mc.BFS(r, mc.BFSOpts{Name: c.String(), NEvents: len(al), MaxDepth: depth,
			EvName: func(e int) string { return al[e].String() },
			Run: func(body func(mc.Model)) {
				synctest.Test(t, func(t *testing.T) {
					m := newModel(c)
					m.prefill()
					body(m)
				})
			},
			Classify: func(fail string, path []int) string {
				clause := strings.SplitN(fail, " ", 2)[0]
				// was the failing request exactly on a grid boundary?
				if strings.Contains(fail, "at +0s into") {
					clause += ":on-boundary"
				}
				return clause
			}})
		r.NonTrivial(fmt.Sprintf("%s states=%d", c, st))
		r.Outcome(fmt.Sprintf("config-states=%d", st))
		r.Sample(map[string]any{"config": c.String(), "states": st, "example_history": "req(r1,A) tick(boundary) req(r1,A) tick(1ns) req(r1,A)"})
	}
	if sh, _ := r.Shard(); sh == 0 {
		allocationTable(t, r)
	}
	if sh, n := r.Shard(); sh == 1%n {
		chainFamily(t, r)
	}
	if sh, n := r.Shard(); sh == 2%n {
		namesFamily(t, r)
	}
	r.Add("traces_validated_against_impl", r.Counters["transitions"])
	schedules(t, r)
	r.Finish(t)
}

// allocationTable: passes in one window == ceil(allowed*pct/100) for every pair.
func allocationTable(t *testing.T, r *mc.Run) {
	bad := 0
	for allowed := int64(1); allowed <= 300; allowed++ {
		for p := int64(1); p <= 100; p++ {
			var passes int64
			synctest.Test(t, func(t *testing.T) {
				clk := clock.NewRealClock()
				st := limit.NewRateLimitState(clk, logging.ContextLogger{})
				wd := limit.WindowData{WindowSize: time.Second, AllowedRequestCount: allowed, QuotaAllocationRatio: float64(p) / 100}
				for i := int64(0); i <= allowed+1; i++ {
					s, _ := st.TryToIncrement(limit.RequestArguments{LimiterID: "r", Grouping: limit.Grouped, GroupID: "g"}, wd)
					if s.LimitSate == limit.Proceed {
						passes++
					}
				}
			})
			r.Add("table_entries", 1)
			if want := ceilPct(allowed, p); passes != want {
				bad++
				r.Violation("ALLOCATION-ROUNDING", fmt.Sprintf("allowed=%d allocation=%d%%: %d requests pass in one window, the rounded-up share is %d", allowed, p, passes, want),
					map[string]any{"allowed": allowed, "pct": p, "passes": passes, "want": want})
			}
		}
	}
	r.Outcome(fmt.Sprintf("table-mismatches=%d", bad))
}

func replayFile(t *testing.T, r *mc.Run, f string) {
	var rp mc.BFSReplay
	if err := mc.LoadReplay(f, &rp); err != nil || rp.Model == "" {
		fmt.Println("replay: not a history replay (allocation-table and schedule findings carry their inputs in the file)")
		return
	}
	for _, c := range configs() {
		if c.String() != rp.Model {
			continue
		}
		synctest.Test(t, func(t *testing.T) {
			m := newModel(c)
			m.prefill()
			for i, e := range rp.Path {
				fail := m.Apply(e)
				fmt.Printf("%2d %-16s now=%v -> %q\n", i, m.alpha[e], time.Now().UnixNano()%int64(10*m.W()), fail)
				if fail != "" {
					t.Fail()
				}
			}
		})
	}
}

// schedules: three goroutines issue the very first requests for one (remedy, group).
func schedules(t *testing.T, r *mc.Run) {
	type res struct{ passed int }
	for _, lim := range []int64{1, 2} {
		o := &mc.SchedOpts{Name: fmt.Sprintf("three-first-requests-limit%d", lim), MaxPreempt: mc.Pick(r, 2, 3), MaxT: 0,
			Body: func(x *mc.Exec) {
				clk := clock.NewRealClock()
				st := limit.NewRateLimitState(clk, logging.ContextLogger{})
				p, _ := remedies.NewStrategyBasedThrottlingPlugin(context.Background(), clk, nil, st, obfuscation.Obfuscator{Hasher: obfuscation.MD5Hasher{}})
				rem := remedy(cfg{Allowed: lim, W: 1, Alloc: "none"}, 0)
				rs := &res{}
				x.Vals["res"] = rs
				for i := 0; i < 3; i++ {
					name := fmt.Sprintf("T%d", i)
					x.Go(name, func() {
						act, _ := p.OnRequest(lunarMessages.OnRequest{ID: name, Headers: map[string]string{}}, config.ScopedRemedy{Remedy: rem})
						_, early := act.(*actions.EarlyResponseAction)
						if !early {
							rs.passed++
						}
						x.Logf("%s passed=%v", name, !early)
					})
				}
			},
			Check: func(x *mc.Exec) (string, string) {
				rs := x.Vals["res"].(*res)
				if int64(rs.passed) > lim {
					return "CONCURRENT-OVER-LIMIT", fmt.Sprintf("%d concurrent requests passed in one window, allowed %d", rs.passed, lim)
				}
				if int64(rs.passed) < lim {
					return "CONCURRENT-UNDER-ADMIT", fmt.Sprintf("only %d of 3 concurrent requests passed although %d are allowed", rs.passed, lim)
				}
				return "", ""
			}}
		mc.Explore(t, r, o)
	}
}
