// C10 — policy-mode delayed priority queue: waiters are released in order and never stranded.
// Engine: schedx — all schedules (bounded preemptions / early time steps) of 2-3 enqueuing
// goroutines against the real DelayedPriorityQueue with its real window roll-over goroutine.
package c10

import (
	"context"
	"fmt"
	"sort"
	"strings"
	"testing"
	"time"

	"lunar/engine/actions"
	"lunar/engine/config"
	lunarMessages "lunar/engine/messages"
	"lunar/engine/services/remedies"
	"lunar/engine/utils/queue"
	sharedConfig "lunar/shared-model/config"

	"go.opentelemetry.io/otel/metric/noop"
	"lunar/toolkit-core/clock"
	"lunar/toolkit-core/logging"
	rt "lunar/toolkit-core/verifrt"
	"verifharness/mc"
)

const W = time.Second

type arrival struct {
	Name     string
	Priority float64
	Delay    time.Duration // virtual delay before calling Enqueue
	TTL      time.Duration // 0 = the scenario's TTL
}

type scenario struct {
	Plugin    bool // drive StrategyBasedQueuePlugin.OnRequest instead of the queue itself
	Name      string
	Quota     int64
	QueueSize int64
	TTL       time.Duration
	Arrivals  []arrival
	// LessPre: explore this (larger) scenario with one preemption less than the others
	LessPre bool
	// OldWindow / OldCfg (plugin scenarios): the arrivals named in OldCfg come with the
	// remedy configured with window OldWindow; the others with the same remedy (same name)
	// re-configured to window W, as after a policy reload in between
	OldWindow time.Duration
	OldCfg    []string
}

type reqState struct {
	a         arrival
	req       *queue.Request
	created   bool
	arrivedAt time.Duration // end of its Enqueue critical section (-1 = not yet)
	granted   bool
	grantedAt time.Duration
	returned  bool
	result    bool
	returnAt  time.Duration
	waited    bool // was pushed to the heap (did not return at arrival)
	createdAt time.Duration
	// pushed-and-unanswered other requests at the end of this request's own critical section
	occupiedAtArrival int
}

type state struct {
	dpq      *queue.DelayedPriorityQueue
	mu       uintptr
	reqs     []*reqState
	grantsIn map[int64][]string // grid window -> granted request names
}

func (sc scenario) ttl(a arrival) time.Duration {
	if a.TTL > 0 {
		return a.TTL
	}
	return sc.TTL
}

func build(sc scenario) *mc.SchedOpts {
	if sc.Plugin {
		return buildPlugin(sc)
	}
	return &mc.SchedOpts{
		Name:    sc.Name,
		Quantum: W / 2,
		MaxT:    int((sc.TTL+2*W)/(W/2)) + 2,
		Body: func(x *mc.Exec) {
			clk := clock.NewRealClock()
			st := &state{grantsIn: map[int64][]string{}}
			st.dpq = queue.NewInMemoryDelayedPriorityQueue(queue.QueueKey{RemedyName: "r", Strategy: queue.Strategy{WindowQuota: sc.Quota, WindowSize: W}},
				clk, logging.ContextLogger{})
			st.mu = queue.VerifMutexAddr(st.dpq)
			x.Vals["st"] = st
			for i := range sc.Arrivals {
				rs := &reqState{a: sc.Arrivals[i], arrivedAt: -1}
				st.reqs = append(st.reqs, rs)
				x.Go(rs.a.Name, func() {
					if rs.a.Delay > 0 {
						time.Sleep(rs.a.Delay)
						rt.PointL(rt.OpHarness, 0, "woke", nil)
					}
					rs.req = queue.NewRequest(rs.a.Name, rs.a.Priority, clk)
					rs.created, rs.createdAt = true, x.Now()
					ok, err := st.dpq.Enqueue(rs.req, sc.ttl(rs.a), sc.QueueSize)
					rs.returned, rs.result, rs.returnAt = true, ok, x.Now()
					x.Logf("%s -> %v err=%v", rs.a.Name, ok, err)
				})
			}
		},
		OnQuiescent: func(x *mc.Exec) { invariant(x, sc) },
		Check:       func(x *mc.Exec) (string, string) { return final(x, sc) },
	}
}

// invariant is evaluated at every quiescent point of every schedule.
func invariant(x *mc.Exec, sc scenario) {
	st := x.Vals["st"].(*state)
	now := x.Now()
	d := queue.VerifDump(st.dpq)
	inHeap := map[string]bool{}
	for _, id := range d.HeapIDs {
		inHeap[id] = true
	}
	// arrivals: a harness goroutine parked right after releasing the queue mutex for the first time
	for _, p := range x.Parked() {
		if p.Op == rt.OpUnlocked && p.Obj == st.mu && p.Sid < len(st.reqs) {
			rs := st.reqs[p.Sid]
			if rs.arrivedAt < 0 {
				rs.arrivedAt = now
				rs.waited = inHeap[rs.a.Name] // pushed to the heap during its critical section
				// requests that may occupy a queue place at this instant: pushed earlier and
				// not yet back from Enqueue (a waiter that was just granted keeps its place in
				// the queue's bookkeeping until its own goroutine has picked the grant up)
				for _, o := range st.reqs {
					if o != rs && o.waited && !o.returned {
						rs.occupiedAtArrival++
					}
				}
			}
		}
	}
	// grants
	for _, rs := range st.reqs {
		if rs.created && !rs.granted && queue.VerifGranted(rs.req) {
			rs.granted, rs.grantedAt = true, now
			if !rs.waited {
				continue // immediate admission: accounted at its arrival instant in final()
			}
			x.Logf("release %s window %d", rs.a.Name, int64(now/W))
			// order: nobody with a better (priority, arrival) may still be waiting in the heap
			for _, o := range st.reqs {
				if o != rs && o.created && !o.granted && !o.returned && inHeap[o.a.Name] && o.arrivedAt >= 0 && rs.arrivedAt >= 0 &&
					now < o.arrivedAt+sc.ttl(o.a) && o.waited &&
					(o.a.Priority < rs.a.Priority || (o.a.Priority == rs.a.Priority && o.createdAt < rs.createdAt)) {
					x.Fail("ORDER", fmt.Sprintf("%s (priority %v, arrived %v) was released while %s (priority %v, arrived %v) was still waiting",
						rs.a.Name, rs.a.Priority, rs.arrivedAt, o.a.Name, o.a.Priority, o.arrivedAt))
				}
			}
		}
	}
	// waiters: arrived, neither granted nor returned, TTL not elapsed
	waiting := 0
	for _, rs := range st.reqs {
		if rs.waited && !rs.granted && !rs.returned && now < rs.arrivedAt+sc.ttl(rs.a) {
			waiting++
			// STRANDED: a live waiter must still be in the heap (or have been granted)
			if !inHeap[rs.a.Name] {
				x.Fail("STRANDED", fmt.Sprintf("%s is still waiting (arrived %v, ttl %v, now %v) but is neither granted nor in the queue any more: it can only expire", rs.a.Name, rs.arrivedAt, sc.ttl(rs.a), now))
			}
		}
	}
	if int64(waiting) > sc.QueueSize {
		x.Fail("QUEUE-SIZE", fmt.Sprintf("%d requests are waiting but the queue size is %d", waiting, sc.QueueSize))
	}
	// after a roll-over pass (bg goroutine parked after releasing the write lock): no live
	// waiter may remain while the window still has free quota
	for _, p := range x.Parked() {
		if p.Op == rt.OpUnlocked && p.Obj == st.mu && p.Sid >= 100 {
			if d.Counter < sc.Quota {
				for _, rs := range st.reqs {
					if rs.waited && !rs.granted && !rs.returned && now < rs.arrivedAt+sc.ttl(rs.a) {
						x.Fail("PASS-LEFT-WAITER", fmt.Sprintf("roll-over pass at %v ended with free quota (%d/%d) while %s was still waiting", now, d.Counter, sc.Quota, rs.a.Name))
					}
				}
			}
		}
	}
}

func final(x *mc.Exec, sc scenario) (string, string) {
	st := x.Vals["st"].(*state)
	if x.Horizon {
		return "", ""
	}
	// admissions + releases per aligned window
	per := map[int64][]string{}
	for _, rs := range st.reqs {
		switch {
		case rs.returned && rs.result && !rs.waited && rs.arrivedAt >= 0:
			per[int64(rs.arrivedAt/W)] = append(per[int64(rs.arrivedAt/W)], rs.a.Name)
		case rs.waited && rs.granted:
			per[int64(rs.grantedAt/W)] = append(per[int64(rs.grantedAt/W)], rs.a.Name)
		}
	}
	for w, l := range per {
		if int64(len(l)) > sc.Quota {
			return "OVER-QUOTA", fmt.Sprintf("window %d let %v pass but the window quota is %d", w, l, sc.Quota)
		}
	}
	for _, rs := range st.reqs {
		if !rs.returned {
			return "NO-VERDICT", fmt.Sprintf("%s never returned from Enqueue", rs.a.Name)
		}
		if rs.result && !rs.granted {
			return "TRUE-WITHOUT-GRANT", fmt.Sprintf("%s returned true but was never granted", rs.a.Name)
		}
		if !rs.result {
			if !rs.waited && rs.arrivedAt >= 0 && int64(rs.occupiedAtArrival) < sc.QueueSize {
				return "SPURIOUS-QUEUE-FULL", fmt.Sprintf("%s was refused a place at once (arrived %v) although only %d of %d queue places were taken by unanswered requests", rs.a.Name, rs.arrivedAt, rs.occupiedAtArrival, sc.QueueSize)
			}
			if rs.waited && rs.returnAt < rs.arrivedAt+sc.ttl(rs.a) {
				return "EARLY-REJECT", fmt.Sprintf("%s was rejected at %v although it arrived at %v with ttl %v", rs.a.Name, rs.returnAt, rs.arrivedAt, sc.ttl(rs.a))
			}
		}
	}
	return "", ""
}

// ---- plugin level ------------------------------------------------------------------

type pluginReq struct {
	old      bool // came with the remedy's earlier configuration (window OldWindow)
	a        arrival
	startAt  time.Duration
	returned bool
	admitted bool
	returnAt time.Duration
}

func buildPlugin(sc scenario) *mc.SchedOpts {
	return &mc.SchedOpts{
		Name:    sc.Name,
		Quantum: W / 2,
		MaxT:    int((sc.TTL+2*W)/(W/2)) + 2,
		Body: func(x *mc.Exec) {
			clk := clock.NewRealClock()
			cl := logging.ContextLogger{}
			created := 0
			plugin := remedies.NewStrategyBasedQueuePlugin(context.Background(), clk, cl, noop.NewMeterProvider().Meter("verif"),
				func(k queue.QueueKey) queue.DelayedPriorityQueueable {
					created++
					x.Vals["queues"] = created
					return queue.NewInMemoryDelayedPriorityQueue(k, clk, cl)
				})
			groups := map[string]sharedConfig.Prioritization{}
			for _, a := range sc.Arrivals {
				groups[a.Name] = sharedConfig.Prioritization{Priority: a.Priority}
			}
			remedy := &sharedConfig.Remedy{Enabled: true, Name: "q", Config: sharedConfig.RemedyConfig{StrategyBasedQueue: &sharedConfig.StrategyBasedQueueConfig{
				AllowedRequestCount: sc.Quota, WindowSizeInSeconds: int(W / time.Second), ResponseStatusCode: 429,
				TTLSeconds: float32(sc.TTL.Seconds()), QueueSize: sc.QueueSize,
				Prioritization: &sharedConfig.GroupPrioritization{GroupBy: sharedConfig.GroupBy{HeaderName: "x-prio"}, Groups: groups}}}}
			remedyOld := remedy
			if sc.OldWindow > 0 {
				c := *remedy.Config.StrategyBasedQueue
				c.WindowSizeInSeconds = int(sc.OldWindow / time.Second)
				remedyOld = &sharedConfig.Remedy{Enabled: true, Name: "q", Config: sharedConfig.RemedyConfig{StrategyBasedQueue: &c}}
			}
			var reqs []*pluginReq
			for i := range sc.Arrivals {
				pr := &pluginReq{a: sc.Arrivals[i]}
				reqs = append(reqs, pr)
				remedy := remedy
				for _, n := range sc.OldCfg {
					if n == pr.a.Name {
						remedy = remedyOld
						pr.old = true
					}
				}
				x.Go(pr.a.Name, func() {
					if pr.a.Delay > 0 {
						time.Sleep(pr.a.Delay)
						rt.PointL(rt.OpHarness, 0, "woke", nil)
					}
					pr.startAt = x.Now()
					act, err := plugin.OnRequest(lunarMessages.OnRequest{ID: pr.a.Name, Headers: map[string]string{"x-prio": pr.a.Name}},
						config.ScopedRemedy{Remedy: remedy})
					_, early := act.(*actions.EarlyResponseAction)
					pr.returned, pr.admitted, pr.returnAt = true, !early && err == nil, x.Now()
					x.Logf("%s -> admitted=%v err=%v", pr.a.Name, pr.admitted, err)
				})
			}
			x.Vals["reqs"] = reqs
		},
		Check: func(x *mc.Exec) (string, string) {
			if x.Horizon {
				return "", ""
			}
			reqs := x.Vals["reqs"].([]*pluginReq)
			var adm []*pluginReq
			for _, pr := range reqs {
				if !pr.returned {
					return "NO-VERDICT", pr.a.Name + " never got a verdict from OnRequest"
				}
				if pr.admitted {
					adm = append(adm, pr)
				} else if pr.returnAt-pr.startAt < sc.TTL {
					// rejected without waiting its TTL: legal only if the queue was full, i.e. at least
					// QueueSize other requests were in the plugin at that moment
					others := 0
					for _, o := range reqs {
						if o != pr && o.startAt <= pr.returnAt && (!o.returned || o.returnAt >= pr.returnAt) {
							others++
						}
					}
					if int64(others) < sc.QueueSize {
						return "EARLY-REJECT", fmt.Sprintf("%s was rejected after %v (ttl %v) while only %d other requests were in flight (queue size %d)", pr.a.Name, pr.returnAt-pr.startAt, sc.TTL, others, sc.QueueSize)
					}
				}
			}
			// left to expire: a request that waited its whole TTL although an aligned window began
			// during its wait in which nobody was admitted.  Judged by time only in executions in
			// which virtual time advanced only when every goroutine was blocked (then the
			// roll-over due at a boundary has run before time moves on).
			if x.EarlyTs() == 0 {
				for _, pr := range reqs {
					if pr.admitted || pr.returnAt-pr.startAt < sc.TTL {
						continue
					}
					for w := int64(pr.startAt/W) + 1; time.Duration(w)*W <= pr.startAt+sc.TTL-W/2; w++ {
						busy := false
						for _, a := range adm {
							if int64(a.startAt/W) <= w && w <= int64(a.returnAt/W) {
								busy = true
							}
						}
						if !busy {
							return "LEFT-TO-EXPIRE", fmt.Sprintf("%s waited from %v until its TTL (%v) ended although the aligned window starting at %v began during its wait and nobody was admitted in it", pr.a.Name, pr.startAt, sc.TTL, time.Duration(w)*W)
						}
					}
				}
			}
			// is there an assignment of admitted requests to aligned windows inside [start, return]
			// with at most Quota per window?
			// (requests that came with the earlier configuration are not counted against the
			// windows of the new one: the bound is asserted on the requests handled since the
			// change)
			var cur []*pluginReq
			for _, a := range adm {
				if !a.old {
					cur = append(cur, a)
				}
			}
			adm = cur
			var rec func(i int, used map[int64]int64) bool
			rec = func(i int, used map[int64]int64) bool {
				if i == len(adm) {
					return true
				}
				for w := int64(adm[i].startAt / W); w <= int64(adm[i].returnAt/W); w++ {
					if used[w] < sc.Quota {
						used[w]++
						if rec(i+1, used) {
							return true
						}
						used[w]--
					}
				}
				return false
			}
			if !rec(0, map[int64]int64{}) {
				var d []string
				for _, a := range adm {
					d = append(d, fmt.Sprintf("%s[%v..%v]", a.a.Name, a.startAt, a.returnAt))
				}
				return "OVER-QUOTA", fmt.Sprintf("admitted %v cannot be placed into aligned windows with at most %d each", d, sc.Quota)
			}
			return "", ""
		},
	}
}

var scenarios = []scenario{
	{Name: "two-same-instant-q1", Quota: 1, QueueSize: 2, TTL: 5 * W / 2, Arrivals: []arrival{{"A", 1, 0, 0}, {"B", 1, 0, 0}}},
	{Name: "late-arrival-before-rollover", Quota: 1, QueueSize: 2, TTL: 5 * W / 2, Arrivals: []arrival{{"A", 1, 0, 0}, {"B", 1, W - time.Millisecond, 0}}},
	{Name: "three-priorities-q1-size1", Quota: 1, QueueSize: 1, TTL: 5 * W / 2, Arrivals: []arrival{{"A", 1, 0, 0}, {"B", 2, 0, 0}, {"C", 0, time.Millisecond, 0}}},
	{Name: "expired-waiter-ahead-of-live-one", Quota: 1, QueueSize: 3, TTL: 5 * W / 2, Arrivals: []arrival{{"A", 1, 0, 0}, {"B", 0, time.Millisecond, W / 4}, {"C", 1, W / 2, 0}}},
	{LessPre: true, Name: "arrivals-after-expired-waiter-size2", Quota: 1, QueueSize: 2, TTL: 5 * W / 2, Arrivals: []arrival{{"A", 1, 0, 0}, {"B", 1, time.Millisecond, W / 4}, {"C", 1, W / 2, 0}, {"D", 1, W/2 + time.Millisecond, 0}}},
	// the waiter's TTL ends exactly when the window rolls over: expiry and hand-off race; a
	// later arrival must still find the queue place free
	{Name: "ttl-expiry-coincides-with-rollover", Quota: 1, QueueSize: 1, TTL: W, Arrivals: []arrival{{"A", 1, 0, 0}, {"B", 1, 0, 0}, {"C", 1, W + time.Millisecond, 0}}},
	// after the coincidence the queue must still hold at most `queue size` waiters
	{LessPre: true, Name: "ttl-expiry-coincides-with-rollover-then-two-arrivals", Quota: 1, QueueSize: 1, TTL: W, Arrivals: []arrival{{"A", 1, 0, 0}, {"B", 1, 0, 0}, {"C", 1, W + time.Millisecond, 0}, {"D", 1, W + 2*time.Millisecond, 0}}},
	{Plugin: true, Name: "plugin-two-first-requests", Quota: 1, QueueSize: 2, TTL: 2 * W, Arrivals: []arrival{{"A", 1, 0, 0}, {"B", 1, 0, 0}}},
	{Plugin: true, Name: "plugin-three-priorities", Quota: 1, QueueSize: 1, TTL: 2 * W, Arrivals: []arrival{{"A", 1, 0, 0}, {"lo", 2, time.Millisecond, 0}, {"hi", 0, 2 * time.Millisecond, 0}}},
	// the remedy is re-configured from a 4 s window to a 1 s window between the first request
	// and the next two: the waiter must be released when the next 1 s window starts
	{Plugin: true, Name: "plugin-window-shrinks-between-requests", Quota: 1, QueueSize: 2, TTL: 2 * W, OldWindow: 4 * W, OldCfg: []string{"P"},
		Arrivals: []arrival{{"P", 1, 0, 0}, {"A", 1, W / 2, 0}, {"B", 1, W/2 + time.Millisecond, 0}}},
	{Name: "three-priorities-q1-size2", Quota: 1, QueueSize: 2, TTL: 7 * W / 2, Arrivals: []arrival{{"A", 1, 0, 0}, {"lo", 2, time.Millisecond, 0}, {"hi", 0, 2 * time.Millisecond, 0}}},
}

type replay struct {
	Scenario string `json:"scenario"`
	Choices  []int  `json:"choices"`
}

func TestCheck(t *testing.T) {
	r := mc.New("C10", "exploration")
	if f := mc.ReplayFile(); f != "" {
		var rp replay
		if err := mc.LoadReplay(f, &rp); err != nil {
			t.Fatal(err)
		}
		for _, sc := range scenarios {
			if sc.Name == rp.Scenario {
				o := build(sc)
				if k := mc.ReplaySchedule(t, o, rp.Choices); k != "" {
					t.Fail()
				}
			}
		}
		return
	}
	pre := mc.Pick(r, 2, 3)
	et := mc.Pick(r, 1, 2)
	var names []string
	for _, sc := range scenarios {
		names = append(names, sc.Name)
	}
	sort.Strings(names)
	r.Rule = fmt.Sprintf("all schedules of scenarios %s (enqueuing goroutines + the queue's real roll-over goroutine) with <=%d preemptions (one less for the four-arrival scenario) and <=%d early time steps, scheduling points at every sync operation, virtual time quantum W/2; non-trivial/distinct = distinct observation log (verdicts, grant windows, times)", strings.Join(names, ","), pre, et)
	r.Assume("scheduling granularity = sync operations; native channel operations are not split", "virtual time (testing/synctest)")
	if r.Parallel(t, 16) {
		r.Finish(t)
		return
	}
	for _, sc := range scenarios {
		o := build(sc)
		o.MaxPreempt, o.MaxEarlyT = pre, et
		if sc.LessPre {
			o.MaxPreempt = pre - 1
		}
		mc.Explore(t, r, o)
	}
	r.Finish(t)
}
