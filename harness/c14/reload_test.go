package c14

// Reload family: what the proxy has registered after a HISTORY of configuration loads.
// The admin API is an in-process model of the proxy's managed-endpoint map (PUT adds an
// expression, DELETE removes it, manage_all / unmanage_global set and clear the catch-all
// flag).  Every history of reloads and clock steps up to a length is played through the real
// reload path (policy mode: BuildInitialFromFile + TxnPoliciesAccessor.UpdatePoliciesData;
// flows mode: the manager's /apply_flows handler); after every step every (method, URL) the
// CURRENT configuration's engine matches must be covered by what the proxy has registered at
// that moment (delayed removals of superseded expressions included).

import (
	"bytes"
	"context"
	"encoding/base64"
	"encoding/json"
	"fmt"
	"io"
	"net/http"
	"net/http/httptest"
	"os"
	"path/filepath"
	"regexp"
	"sort"
	"strings"
	"sync"
	"testing"
	"testing/synctest"
	"time"

	"lunar/engine/config"
	"lunar/engine/routing"
	"lunar/engine/runner"
	"lunar/engine/utils/environment"
	sharedConfig "lunar/shared-model/config"
	"lunar/toolkit-core/configuration"
	contextmanager "lunar/toolkit-core/context-manager"
	"verifharness/eng"
	"verifharness/mc"
)

// proxyModel is the proxy's side of the admin API.
type proxyModel struct {
	mu        sync.Mutex // delayed clean-ups of two reloads may run at the same virtual instant
	exprs     map[string]bool
	manageAll bool
	log       []string
}

func (p *proxyModel) RoundTrip(rq *http.Request) (*http.Response, error) {
	body := ""
	if rq.Body != nil {
		b, _ := io.ReadAll(rq.Body)
		rq.Body.Close()
		body = string(b)
	}
	p.mu.Lock()
	defer p.mu.Unlock()
	switch {
	case rq.URL.Path == "/managed_endpoint" && rq.Method == http.MethodPut:
		p.exprs[body] = true
	case rq.URL.Path == "/managed_endpoint" && rq.Method == http.MethodDelete:
		delete(p.exprs, body)
	case rq.URL.Path == "/manage_all" && rq.Method == http.MethodPut:
		p.manageAll = true
	case rq.URL.Path == "/unmanage_global" && rq.Method == http.MethodDelete:
		p.manageAll = false
	case rq.URL.Path == "/unmanage_all" && rq.Method == http.MethodPut:
		p.manageAll = false
		p.exprs = map[string]bool{}
	}
	p.log = append(p.log, rq.Method+" "+rq.URL.Path+" "+body)
	return &http.Response{StatusCode: 200, Body: io.NopCloser(strings.NewReader("OK")), Header: http.Header{}, Request: rq}, nil
}

func (p *proxyModel) covers(method, url string) bool {
	p.mu.Lock()
	defer p.mu.Unlock()
	if p.manageAll {
		return true
	}
	subject := method + ":::" + url
	for e := range p.exprs {
		if re, err := regexp.Compile(e); err == nil && re.MatchString(subject) {
			return true
		}
	}
	return false
}

func (p *proxyModel) String() string {
	p.mu.Lock()
	defer p.mu.Unlock()
	var es []string
	for e := range p.exprs {
		es = append(es, e)
	}
	sort.Strings(es)
	return fmt.Sprintf("manage_all=%v %q", p.manageAll, es)
}

// the configurations a history moves between (index 0 is the initial one)
type rcfg struct {
	Name      string
	Endpoints [][2]string // (method, pattern)
	Global    bool        // a global remedy: everything is managed
}

var rcfgs = []rcfg{
	{Name: "A", Endpoints: [][2]string{{"GET", "h.com/a/{id}"}}},
	{Name: "B", Endpoints: [][2]string{{"GET", "h.com/a/{id}"}, {"POST", "h.com/b/*"}}},
	{Name: "C", Endpoints: [][2]string{{"POST", "h.com/b/*"}}},
	{Name: "G", Endpoints: [][2]string{{"GET", "h.com/a/{id}"}}, Global: true},
}

// probes: requests the configurations are about, plus one only a global policy handles
var rprobes = [][2]string{{"GET", "h.com/a/7"}, {"POST", "h.com/b/x/y"}, {"GET", "other.org/z"}}

func (c rcfg) policies() *sharedConfig.PoliciesConfig {
	pc := &sharedConfig.PoliciesConfig{}
	for i, e := range c.Endpoints {
		pc.Endpoints = append(pc.Endpoints, sharedConfig.EndpointConfig{URL: e[1], Method: e[0],
			Remedies: []sharedConfig.Remedy{{Enabled: true, Name: fmt.Sprintf("r%d", i), Config: sharedConfig.RemedyConfig{FixedResponse: &sharedConfig.FixedResponseConfig{StatusCode: 418}}}}})
	}
	if c.Global {
		pc.Global.Remedies = []sharedConfig.Remedy{{Enabled: true, Name: "g", Config: sharedConfig.RemedyConfig{Retry: &sharedConfig.RetryConfig{Attempts: 1}}}}
	}
	return pc
}

func (c rcfg) policiesYAML() string {
	var sb strings.Builder
	sb.WriteString("global:\n")
	if c.Global {
		sb.WriteString("  remedies:\n    - name: g\n      enabled: true\n      config:\n        retry:\n          attempts: 1\n          initial_cooldown_seconds: 1\n          cooldown_multiplier: 1\n          conditions:\n            status_code:\n              - from: 500\n                to: 599\n")
	} else {
		sb.WriteString("  remedies: []\n")
	}
	sb.WriteString("  diagnosis: []\nendpoints:\n")
	for i, e := range c.Endpoints {
		fmt.Fprintf(&sb, "  - url: %s\n    method: %s\n    remedies:\n      - name: r%d\n        enabled: true\n        config:\n          fixed_response:\n            status_code: 418\n    diagnosis: []\n", e[1], e[0], i)
	}
	return sb.String()
}

type revent struct {
	reload int // index into rcfgs, -1 = tick
	tick   time.Duration
}

func (e revent) String() string {
	if e.reload >= 0 {
		return "reload(" + rcfgs[e.reload].Name + ")"
	}
	return fmt.Sprintf("tick(%v)", e.tick)
}

func ralphabet() []revent {
	var a []revent
	for i := range rcfgs {
		a = append(a, revent{reload: i})
	}
	return append(a, revent{reload: -1, tick: 10 * time.Second}, revent{reload: -1, tick: 31 * time.Second})
}

type reloadReplay struct {
	Mode    string   `json:"mode"`
	History []string `json:"history"`
	Indices []int    `json:"indices"`
}

// classifyReload names the mechanism: the expression was removed by a delayed clean-up that
// was scheduled by the LAST reload ("still-needed-expression-removed") or by an earlier one
// ("stale-cleanup-after-later-reload").
func classifyReload(hist []revent, upto int) string {
	reloadsInLast30 := 0
	var since time.Duration
	for i := upto; i >= 0; i-- {
		if hist[i].reload >= 0 {
			if since < 31*time.Second {
				reloadsInLast30++
			}
		} else {
			since += hist[i].tick
		}
	}
	lastReloads := 0
	for i := upto; i >= 0; i-- {
		if hist[i].reload >= 0 {
			lastReloads++
		}
	}
	if lastReloads >= 2 {
		// was an earlier reload's clean-up still pending when the last reload happened?
		var gap time.Duration
		seen := false
		for i := upto; i >= 0; i-- {
			if hist[i].reload >= 0 {
				if seen {
					if gap < 30*time.Second {
						return "stale-cleanup-after-later-reload"
					}
					break
				}
				seen = true
				continue
			}
			if seen {
				gap += hist[i].tick
			}
		}
	}
	return "still-needed-expression-removed"
}

// playPolicy plays one history in policy mode; returns "" or (key, what).
func playPolicy(t *testing.T, hist []revent) (key, what string) {
	synctest.Test(t, func(t *testing.T) {
		px := &proxyModel{exprs: map[string]bool{}}
		http.DefaultClient.Transport = px
		dir, _ := os.MkdirTemp(mc.WorkDir(), "c14-pol-")
		defer os.RemoveAll(dir)
		os.Setenv("LUNAR_PROXY_CONFIG_DIR", dir)
		os.Setenv("LUNAR_PROXY_POLICIES_CONFIG", filepath.Join(dir, "policies.yaml"))
		os.WriteFile(filepath.Join(dir, "policies.yaml"), []byte(rcfgs[0].policiesYAML()), 0o644)
		br, err := config.BuildInitialFromFile()
		if err != nil {
			panic("BuildInitialFromFile: " + err.Error())
		}
		acc := br.Accessor
		defer func() {
			// the vacuum loops never switch themselves off and scheduled clean-ups are
			// sleeping: stop the loops and let virtual time run out before the bubble ends
			config.VerifStopVacuums(acc)
			time.Sleep(2 * time.Minute)
			synctest.Wait()
		}()
		check := func(step int) bool {
			cur := acc.GetCurrentPoliciesData()
			for _, pr := range rprobes {
				matched := len(runner.VerifGetRemedies(pr[0], pr[1], &cur.EndpointPolicyTree)) > 0 || len(cur.Config.Global.Remedies) > 0
				if matched && !px.covers(pr[0], pr[1]) {
					name := "initial load"
					if step >= 0 {
						name = hist[step].String()
					}
					k := "initial-load"
					if step >= 0 {
						k = classifyReload(hist, step)
					}
					key = "policy:reload-history:" + k
					what = fmt.Sprintf("policy mode, history %v: after %s the current configuration applies a remedy to %s %s, but the proxy has no expression registered that matches it (%s)", hist[:step+1], name, pr[0], pr[1], px)
					return false
				}
			}
			return true
		}
		if !check(-1) {
			return
		}
		for i, e := range hist {
			if e.reload >= 0 {
				raw := []byte(rcfgs[e.reload].policiesYAML())
				res, err := configuration.UnmarshalPolicyRawData[sharedConfig.PoliciesConfig](raw)
				if err != nil {
					panic(err)
				}
				pd, err := config.BuildPolicyData(res.UnmarshaledData, false)
				if err != nil {
					panic(err)
				}
				if err := acc.UpdatePoliciesData(pd, false); err != nil {
					panic(err)
				}
			} else {
				time.Sleep(e.tick)
				synctest.Wait()
			}
			if !check(i) {
				return
			}
		}
	})
	return
}

// ---- flows mode ---------------------------------------------------------------------------

const rMetricsYAML = `general_metrics:
  label_value:
    - http_method
  metric_value:
    - name: api_call_count
      description: Number of API calls
system_metrics:
  - name: active_flows
    description: Number of active flows
labeled_endpoints: []
`

func (c rcfg) flowFiles() map[string]string {
	m := map[string]string{}
	for i, e := range c.Endpoints {
		m[fmt.Sprintf("f%s%d.yaml", strings.ToLower(e[0]), i)] = flowYAML(fmt.Sprintf("f%s%d", strings.ToLower(e[0]), i), e[1], []string{e[0]})
	}
	if c.Global {
		m["all.yaml"] = flowYAML("all", "*", nil)
	}
	return m
}

var rRootN int

func playFlows(t *testing.T, hist []revent) (key, what string) {
	mc.Bubble(t, func(t *testing.T) {
		ctx, cancel := context.WithCancel(context.Background())
		defer func() {
			cancel()
			time.Sleep(2 * time.Minute)
			synctest.Wait()
		}()
		contextmanager.Get().WithContext(ctx)
		px := &proxyModel{exprs: map[string]bool{}}
		http.DefaultClient.Transport = px
		rRootN++
		root := filepath.Join(mc.WorkDir(), fmt.Sprintf("c14-flows-%d-%d", os.Getpid(), rRootN))
		defer os.RemoveAll(root)
		for _, d := range []string{"flows", "quotas", "path_params", "state"} {
			os.MkdirAll(filepath.Join(root, d), 0o755)
		}
		for n, y := range rcfgs[0].flowFiles() {
			os.WriteFile(filepath.Join(root, "flows", n), []byte(y), 0o644)
		}
		os.WriteFile(filepath.Join(root, "gateway_config.yaml"), []byte("allowed_domains: []\n"), 0o644)
		os.WriteFile(filepath.Join(root, "metrics.yaml"), []byte(rMetricsYAML), 0o644)
		os.WriteFile(filepath.Join(root, "default_metrics.yaml"), []byte(rMetricsYAML), 0o644)
		eng.Point(root, "")
		environment.SetGatewayConfigPath(filepath.Join(root, "gateway_config.yaml"))
		environment.SetMetricsConfigFilePath(filepath.Join(root, "metrics.yaml"))
		environment.SetDiscoveryStateLocation(filepath.Join(root, "state", "discovery.json"))
		os.Setenv(environment.MetricsConfigFileDefaultPathEnvVar, filepath.Join(root, "default_metrics.yaml"))
		os.Setenv("LUNAR_FLOWS_PATH_PARAM_CONFIG", filepath.Join(root, "state", "known_endpoints.yaml"))
		rd, err := routing.VerifNewHandlingDataManager()
		if err != nil {
			panic("manager did not start: " + err.Error())
		}
		check := func(step int) bool {
			s := rd.VerifStream()
			for _, pr := range rprobes {
				before := s.GetFlowInvocations()
				var n0 int64
				for _, v := range before {
					n0 += v
				}
				eng.OnRequest(s, eng.Req{ID: fmt.Sprintf("p%d", step), Method: pr[0], URL: pr[1]})
				var n1 int64
				for _, v := range s.GetFlowInvocations() {
					n1 += v
				}
				if n1 > n0 && !px.covers(pr[0], pr[1]) {
					name, k := "initial load", "initial-load"
					if step >= 0 {
						name, k = hist[step].String(), classifyReload(hist, step)
					}
					key = "flow:reload-history:" + k
					what = fmt.Sprintf("flows mode, history %v: after %s a flow of the current configuration runs for %s %s, but the proxy has no expression registered that matches it (%s)", hist[:step+1], name, pr[0], pr[1], px)
					return false
				}
			}
			return true
		}
		if !check(-1) {
			return
		}
		for i, e := range hist {
			if e.reload >= 0 {
				files := map[string]string{}
				for n, y := range rcfgs[e.reload].flowFiles() {
					files[n] = base64.StdEncoding.EncodeToString([]byte(y))
				}
				body, _ := json.Marshal(map[string]any{"flows": files})
				rec := httptest.NewRecorder()
				rd.VerifHandleApplyFlows()(rec, httptest.NewRequest(http.MethodPut, "/apply_flows", bytes.NewReader(body)))
				if rec.Code != 200 {
					panic(fmt.Sprintf("apply_flows answered %d: %s", rec.Code, rec.Body.String()))
				}
			} else {
				time.Sleep(e.tick)
				synctest.Wait()
			}
			if !check(i) {
				return
			}
		}
	})
	return
}

func reloadFamily(t *testing.T, r *mc.Run) {
	al := ralphabet()
	maxLen := mc.Pick(r, 5, 6)
	idx := 1 << 20
	for _, mode := range []string{"policy", "flows"} {
		ml := maxLen
		if mode == "flows" {
			ml = mc.Pick(r, 4, 5)
		}
		mc.Sequences(len(al), ml, func(ix []int) bool {
			idx++
			if !r.Mine(idx) {
				return true
			}
			hist := make([]revent, len(ix))
			names := make([]string, len(ix))
			for i, k := range ix {
				hist[i] = al[k]
				names[i] = al[k].String()
			}
			var key, what string
			if mode == "policy" {
				key, what = playPolicy(t, hist)
			} else {
				key, what = playFlows(t, hist)
			}
			r.Add("evaluations", 1)
			r.Add("reload_histories", 1)
			r.NonTrivial(mode + fmt.Sprint(names))
			if key != "" {
				r.Outcome(mode + ":reload-history:NOT-covered")
				r.Violation(key, what, reloadReplay{mode, names, append([]int{}, ix...)})
			} else {
				r.Outcome(mode + ":reload-history:covered")
			}
			return true
		})
	}
}

func replayReload(t *testing.T, rp reloadReplay) {
	al := ralphabet()
	hist := make([]revent, len(rp.Indices))
	for i, k := range rp.Indices {
		hist[i] = al[k]
	}
	var key, what string
	if rp.Mode == "policy" {
		key, what = playPolicy(t, hist)
	} else {
		key, what = playFlows(t, hist)
	}
	fmt.Printf("replay %s history %v -> %s %s\n", rp.Mode, hist, key, what)
	if key != "" {
		t.Fail()
	}
}
