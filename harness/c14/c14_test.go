// C14 — traffic a flow or policy must see is always registered as managed.
// Engine: seqx product enumeration: URL patterns (dots, parameters, wildcard, regex-special
// literals) x method lists x request (method, URL) instantiations.  The managed-endpoint
// expressions come from the real engine (flows: a real Stream from YAML + the manager's
// buildHAProxyFlowsEndpointsRequest; policies: BuildHAProxyEndpointsRequest) and are
// evaluated as unanchored regular expressions on "METHOD:::url", as haproxy's map_reg does;
// the engine's own verdict comes from the real FilterTree / EndpointPolicyTree.
package c14

import (
	"fmt"
	"regexp"
	"sort"
	"strings"
	"testing"

	"lunar/engine/config"
	lunar_messages "lunar/engine/messages"
	"lunar/engine/routing"
	"lunar/engine/runner"
	stream_config "lunar/engine/streams/config"
	streamfilter "lunar/engine/streams/filter"
	stream_flow "lunar/engine/streams/flow"
	public_types "lunar/engine/streams/public-types"
	stream_types "lunar/engine/streams/types"
	sharedConfig "lunar/shared-model/config"
	"verifharness/eng"
	"verifharness/mc"
)

var reqMethods = []string{"GET", "POST", "PUT", "DELETE", "PATCH", "HEAD", "OPTIONS"}

type pat struct {
	Pattern string
	URLs    []string // instantiations the engine is expected to match (engine decides)
}

func instantiate(pattern string) []string {
	// every {param} takes each value, trailing /* takes each tail
	urls := []string{""}
	host, rest, _ := strings.Cut(pattern, "/")
	expand := func(cur []string, part string, host bool, sep string, first bool) []string {
		var vals []string
		switch {
		case strings.HasPrefix(part, "{") && strings.HasSuffix(part, "}"):
			if host {
				vals = []string{"x", "a-b"}
			} else {
				vals = []string{"x", "x.y", "a+b", "7"}
			}
		default:
			vals = []string{part}
		}
		var out []string
		for _, c := range cur {
			for _, v := range vals {
				if first {
					out = append(out, c+v)
				} else {
					out = append(out, c+sep+v)
				}
			}
		}
		return out
	}
	for i, h := range strings.Split(host, ".") {
		urls = expand(urls, h, true, ".", i == 0)
	}
	if rest != "" {
		segs := strings.Split(rest, "/")
		for i, s := range segs {
			if s == "*" && i == len(segs)-1 {
				var out []string
				for _, c := range urls {
					for _, tail := range []string{"", "/t", "/t/u.v"} {
						out = append(out, c+tail)
					}
				}
				urls = out
				continue
			}
			urls = expand(urls, s, false, "/", false)
		}
	}
	return urls
}

func flowYAML(name, url string, methods []string) string {
	var sb strings.Builder
	fmt.Fprintf(&sb, "name: %s\nfilter:\n  url: %q\n", name, url)
	if len(methods) > 0 {
		fmt.Fprintf(&sb, "  method: [%s]\n", strings.Join(methods, ", "))
	}
	sb.WriteString(`processors:
  P:
    processor: MockProcessor
flow:
  request:
    - from:
        stream:
          name: globalStream
          at: start
      to:
        processor:
          name: P
    - from:
        processor:
          name: P
          condition: output_1
      to:
        stream:
          name: globalStream
          at: end
  response:
    - from:
        stream:
          name: globalStream
          at: start
      to:
        stream:
          name: globalStream
          at: end
`)
	return sb.String()
}

type replay struct {
	Mode    string   `json:"mode"`
	Pattern string   `json:"pattern"`
	Methods []string `json:"methods"`
	Method  string   `json:"method"`
	URL     string   `json:"url"`
}

// classify: which feature of the pattern/URL is involved (known-findings key).
func classify(pattern, method, url string, declared []string) string {
	var f []string
	if len(declared) == 0 && (method == "HEAD" || method == "OPTIONS") {
		f = append(f, "method-not-in-default-list:"+method)
	}
	for _, c := range `+?()[]|$^\` {
		if strings.ContainsRune(pattern, c) {
			f = append(f, "literal:"+string(c))
		}
	}
	if strings.Contains(pattern, "{a.b}") {
		f = append(f, "param-name-with-dot")
	}
	if i := strings.Index(pattern, "/"); i >= 0 && strings.Contains(pattern[:i], "{") || (i < 0 && strings.Contains(pattern, "{")) {
		f = append(f, "host-parameter")
	}
	if len(f) == 0 {
		f = append(f, "plain")
	}
	sort.Strings(f)
	return strings.Join(f, "+")
}

func covered(exprs []string, method, url string) (bool, string) {
	subject := method + ":::" + url
	for _, e := range exprs {
		re, err := regexp.Compile(e)
		if err != nil {
			return false, fmt.Sprintf("expression %q does not compile: %v", e, err)
		}
		if re.MatchString(subject) {
			return true, ""
		}
	}
	return false, ""
}

func flowEngineMatches(pattern string, methods []string, method, url string) bool {
	fl := &stream_config.Filter{Name: "f", URL: pattern, Method: append([]string{}, methods...),
		QueryParams: []public_types.KeyValue{}, Headers: []public_types.KeyValue{}, StatusCode: []int{}}
	tree := streamfilter.NewFilterTree()
	if err := tree.AddFlow(stream_flow.NewFlow(nil, &stream_config.FlowRepresentation{Name: "f", Filter: fl}, nil)); err != nil {
		return false
	}
	api := stream_types.NewRequestAPIStream(lunar_messages.OnRequest{ID: "1", SequenceID: "1", Method: method, Scheme: "https",
		URL: url, Headers: map[string]string{}}, eng.SharedState)
	_, found := tree.GetFlow(api)
	return found
}

func flowExpressions(pattern string, methods []string) ([]string, bool, error) {
	return flowExpressionsMulti(pattern, [][]string{methods})
}

// flowExpressionsMulti loads one engine with one flow per method list, all on the same URL.
func flowExpressionsMulti(pattern string, methodLists [][]string) ([]string, bool, error) {
	files := map[string]string{}
	for i, ml := range methodLists {
		files[fmt.Sprintf("f%d.yaml", i)] = flowYAML(fmt.Sprintf("f%d", i), pattern, ml)
	}
	s, root, err := eng.NewStream(eng.Files{Flows: files})
	defer eng.Remove(root)
	if err != nil {
		return nil, false, err
	}
	rq := routing.VerifFlowsEndpointsRequest(s)
	var out []string
	for _, e := range rq.ManagedEndpoints {
		out = append(out, e.Endpoint)
	}
	return out, rq.ManageAll, nil
}

func endpointsFor(pattern, methods string) []sharedConfig.EndpointConfig {
	var eps []sharedConfig.EndpointConfig
	for i, m := range strings.Split(methods, ",") {
		ep := sharedConfig.EndpointConfig{URL: pattern, Method: m}
		if i%2 == 0 {
			ep.Remedies = []sharedConfig.Remedy{{Enabled: true, Name: "r" + m, Config: sharedConfig.RemedyConfig{FixedResponse: &sharedConfig.FixedResponseConfig{StatusCode: 418}}}}
		} else {
			// the second endpoint of a URL is managed through a diagnosis and a remedy
			ep.Remedies = []sharedConfig.Remedy{{Enabled: true, Name: "r" + m, Config: sharedConfig.RemedyConfig{Retry: &sharedConfig.RetryConfig{Attempts: 1}}}}
			ep.Diagnosis = []sharedConfig.Diagnosis{{Enabled: true, Name: "d" + m}}
		}
		eps = append(eps, ep)
	}
	return eps
}

func policyExpressions(pattern, method string) ([]string, bool) {
	pc := &sharedConfig.PoliciesConfig{Endpoints: endpointsFor(pattern, method)}
	rq := config.BuildHAProxyEndpointsRequest(pc)
	var out []string
	for _, e := range rq.ManagedEndpoints {
		out = append(out, e.Endpoint)
	}
	return out, rq.ManageAll
}

func policyEngineMatches(pattern, declMethod, method, url string) bool {
	tree, err := config.BuildEndpointPolicyTree(endpointsFor(pattern, declMethod))
	if err != nil {
		return false
	}
	return len(runner.VerifGetRemedies(method, url, tree)) > 0
}

func patterns() []string {
	ps := []string{"h.com", "api.h.com", "api.h.com/v1", "h.com/*", "h.com/a/*", "h.com/a/{id}", "h.com/a/{id}/b", "h.com/{user_id}/b/*",
		"h.com/a/{a.b}", "{sub}.h.com/a", "{sub}.h.com/*", "h.com/v1.0/a", "h.com/a/{id}/{id2}"}
	for _, c := range []string{"+", "?", "(b)", "[b]", "|", "$", "^", `\`, "(", "{2}"} {
		ps = append(ps, "h.com/a"+c+"c", "h.com/a"+c+"c/{id}", "h.com/a"+c+"c/*")
	}
	return ps
}

func TestCheck(t *testing.T) {
	r := mc.New("C14", "exploration")
	methodLists := [][]string{nil, {"GET"}, {"GET", "POST"}}
	if f := mc.ReplayFile(); f != "" {
		var rr reloadReplay
		if err := mc.LoadReplay(f, &rr); err == nil && len(rr.Indices) > 0 {
			replayReload(t, rr)
			return
		}
		var rp replay
		if err := mc.LoadReplay(f, &rp); err != nil {
			t.Fatal(err)
		}
		var exprs []string
		var engMatches bool
		if rp.Mode == "flow-catch-all" {
			files := map[string]string{"all.yaml": flowYAML("all", "*", nil), "p.yaml": flowYAML("p", rp.Pattern, []string{"GET"})}
			s, root, err := eng.NewStream(eng.Files{Flows: files})
			defer eng.Remove(root)
			if err != nil {
				t.Fatal(err)
			}
			bad := 0
			for rep := 0; rep < 24; rep++ {
				if rq := routing.VerifFlowsEndpointsRequest(s); !rq.ManageAll {
					bad++
				}
			}
			fmt.Printf("replay catch-all + %s: manage_all missing in %d of 24 builds\n", rp.Pattern, bad)
			if bad > 0 {
				t.Fail()
			}
			return
		}
		if rp.Mode == "flow" {
			exprs, _, _ = flowExpressions(rp.Pattern, rp.Methods)
			engMatches = flowEngineMatches(rp.Pattern, rp.Methods, rp.Method, rp.URL)
		} else {
			exprs, _ = policyExpressions(rp.Pattern, rp.Methods[0])
			engMatches = policyEngineMatches(rp.Pattern, rp.Methods[0], rp.Method, rp.URL)
		}
		ok, why := covered(exprs, rp.Method, rp.URL)
		fmt.Printf("replay %s pattern=%s methods=%v request=%s %s: engine matches=%v, registered %q covers=%v %s\n", rp.Mode, rp.Pattern, rp.Methods, rp.Method, rp.URL, engMatches, exprs, ok, why)
		if engMatches && !ok {
			t.Fail()
		}
		return
	}
	ps := patterns()
	r.Rule = fmt.Sprintf("%d URL patterns (hosts with dots, host/path parameters incl. a dotted name, trailing wildcard, literals containing each of + ? ( ) [ ] | $ ^ \\ {n}) x method lists {none,[GET],[GET,POST]} (flows) / each declared method (policies) x every instantiation of the pattern (parameter values x, x.y, a+b, 7; wildcard tails '', /t, /t/u.v) x 7 request methods; the engine's verdict is the real FilterTree / EndpointPolicyTree, the expressions come from a real Stream + buildHAProxyFlowsEndpointsRequest / BuildHAProxyEndpointsRequest; non-trivial = (method,url) the engine matches; distinct = (mode, pattern, method list, method, url); reload family: every history of length <=5 (flows mode <=4) over {reload to configuration A|B|C|G, clock step 10 s, 31 s} through the real reload path against an in-process model of the proxy's managed-endpoint map: after every step the traffic the current configuration handles must be covered by what the proxy has registered at that moment", len(ps))
	r.Assume("haproxy's map_reg regex engine agrees with Go RE2 on the generated expressions (an expression that does not compile is reported)",
		"only the nine standard HTTP methods are considered")
	if r.Parallel(t, 16) {
		r.Finish(t)
		return
	}
	idx := 0
	for _, p := range ps {
		urls := instantiate(p)
		// the same instantiations with the first host label capitalised (the proxy's
		// expressions are matched case-sensitively against what the client sent; whatever
		// the engine accepts of these must be covered too)
		for _, u := range append([]string{}, urls...) {
			if u != "" && u[0] >= 'a' && u[0] <= 'z' {
				urls = append(urls, strings.ToUpper(u[:1])+u[1:])
			}
		}
		for _, ml := range methodLists {
			idx++
			if !r.Mine(idx) {
				continue
			}
			exprs, manageAll, err := flowExpressions(p, ml)
			if err != nil {
				r.Outcome("flow-load-rejected: " + err.Error())
				continue
			}
			for _, u := range urls {
				for _, m := range reqMethods {
					r.Add("evaluations", 1)
					if !flowEngineMatches(p, ml, m, u) {
						r.Outcome("flow:engine-no-match")
						continue
					}
					r.NonTrivial(fmt.Sprint("flow", p, ml, m, u))
					if manageAll {
						r.Outcome("flow:manage-all")
						continue
					}
					ok, why := covered(exprs, m, u)
					if ok {
						r.Outcome("flow:covered")
						if idx%17 == 1 && m == "POST" {
							r.Sample(map[string]any{"mode": "flow", "pattern": p, "methods": ml, "request": m + " " + u, "expressions": exprs, "covered": true})
						}
						continue
					}
					r.Outcome("flow:NOT-covered")
					r.Violation("flow:"+classify(p, m, u, ml), fmt.Sprintf("flow filter %s methods=%v: the engine matches %s %s but none of the registered expressions %q does %s", p, ml, m, u, exprs, why),
						replay{"flow", p, ml, m, u})
				}
			}
		}
		// two flows on the same URL with different method lists, in one engine
		for _, mls := range [][][]string{{{"GET"}, {"POST", "PUT"}}, {nil, {"GET"}}, {{"DELETE"}, nil}} {
			idx++
			if !r.Mine(idx) {
				continue
			}
			if exprs, manageAll, err := flowExpressionsMulti(p, mls); err == nil && !manageAll {
				for _, ml := range mls {
					for _, u := range urls {
						for _, m := range reqMethods {
							r.Add("evaluations", 1)
							if !flowEngineMatches(p, ml, m, u) {
								continue
							}
							r.NonTrivial(fmt.Sprint("flow2", p, ml, m, u))
							if ok, why := covered(exprs, m, u); !ok {
								r.Violation("flow:two-flows-one-url:"+classify(p, m, u, ml), fmt.Sprintf("two flows on %s with methods %v: the engine matches %s %s (flow with methods %v) but none of the registered expressions %q does %s", p, mls, m, u, ml, exprs, why),
									replay{"flow", p, ml, m, u})
							}
						}
					}
				}
			}
		}
		// a catch-all flow ("*") next to a flow on this pattern: transactions on other hosts are
		// handled by the catch-all flow and must be managed too.  The manager walks its filters
		// in Go map order, so the request is rebuilt several times per engine (this repeats
		// over the runtime's randomised iteration order; it is not an enumeration of it).
		idx++
		if r.Mine(idx) {
			files := map[string]string{"all.yaml": flowYAML("all", "*", nil), "p.yaml": flowYAML("p", p, []string{"GET"})}
			if s, root, err := eng.NewStream(eng.Files{Flows: files}); err == nil {
				for rep := 0; rep < 24; rep++ {
					rq := routing.VerifFlowsEndpointsRequest(s)
					r.Add("evaluations", 1)
					if rq.ManageAll {
						continue
					}
					var exprs []string
					for _, e := range rq.ManagedEndpoints {
						exprs = append(exprs, e.Endpoint)
					}
					if ok, why := covered(exprs, "GET", "other.org/x/y"); !ok {
						r.Violation("flow:catch-all-next-to-other-flow", fmt.Sprintf("flows on * and on %s: the catch-all flow handles GET other.org/x/y, but manage_all is not set and none of the registered expressions %q matches it %s (build %d of the same engine)", p, exprs, why, rep),
							replay{"flow-catch-all", p, []string{"GET"}, "GET", "other.org/x/y"})
						break
					}
				}
				r.NonTrivial(fmt.Sprint("catch-all", p))
				eng.Remove(root)
			} else {
				eng.Remove(root)
				r.Outcome("catch-all-load-rejected: " + err.Error())
			}
		}
		for _, dm := range []string{"GET", "POST", "GET,DELETE", "POST,GET,PUT"} {
			idx++
			if !r.Mine(idx) {
				continue
			}
			exprs, manageAll := policyExpressions(p, dm)
			for _, u := range urls {
				for _, m := range reqMethods {
					r.Add("evaluations", 1)
					if !policyEngineMatches(p, dm, m, u) {
						r.Outcome("policy:engine-no-match")
						continue
					}
					r.NonTrivial(fmt.Sprint("policy", p, dm, m, u))
					if manageAll {
						continue
					}
					ok, why := covered(exprs, m, u)
					if ok {
						r.Outcome("policy:covered")
						continue
					}
					r.Outcome("policy:NOT-covered")
					r.Violation("policy:"+classify(p, m, u, []string{dm}), fmt.Sprintf("policy endpoint %s %s: the engine matches %s %s but none of the registered expressions %q does %s", dm, p, m, u, exprs, why),
						replay{"policy", p, []string{dm}, m, u})
				}
			}
		}
	}
	reloadFamily(t, r)
	r.Finish(t)
}
