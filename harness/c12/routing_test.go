package c12

// Routing-level family: the caching remedy behind the real SPOE message handlers
// (routing.processRequest / processResponse of a policy-mode manager).  Three URLs of one
// endpoint that differ only in letter case in the selected path parameter; every history up
// to a length of {request u, response u (its own body)}: a request is answered from memory
// only with the body stored for exactly that URL.

import (
	"fmt"
	"io"
	"net/http"
	"strings"
	"testing"
	"testing/synctest"
	"time"

	"github.com/negasus/haproxy-spoe-go/action"
	"github.com/negasus/haproxy-spoe-go/message"
	"github.com/negasus/haproxy-spoe-go/payload/kv"

	"lunar/engine/config"
	"lunar/engine/routing"
	"lunar/engine/services"
	"lunar/engine/services/remedies"
	sharedConfig "lunar/shared-model/config"
	"lunar/toolkit-core/clock"
	"verifharness/mc"
)

type okTransportR struct{}

func (okTransportR) RoundTrip(rq *http.Request) (*http.Response, error) {
	if rq.Body != nil {
		io.Copy(io.Discard, rq.Body)
		rq.Body.Close()
	}
	return &http.Response{StatusCode: 200, Body: io.NopCloser(strings.NewReader("OK")), Header: http.Header{}, Request: rq}, nil
}

var routingCacheHits int

var rURLs = []string{"h.com/links/aB3x", "h.com/links/Ab3X", "h.com/links/ab3x"}

func cacheMsg(name, id, url string, status int64, body string) *message.Message {
	k := kv.NewKV()
	k.Add("id", id)
	k.Add("sequence_id", id)
	k.Add("method", "GET")
	k.Add("url", url)
	k.Add("headers", "")
	k.Add("body", []byte(body))
	if name == "lunar-on-request" {
		k.Add("scheme", "https")
		k.Add("path", url[strings.IndexByte(url, '/'):])
		k.Add("query", "")
	} else {
		k.Add("status", status)
	}
	return &message.Message{Name: name, KV: k}
}

func earlyBody(acts action.Actions) (string, bool) {
	early := false
	body := ""
	for _, a := range acts {
		switch a.Name {
		case "return_early_response":
			if b, ok := a.Value.(bool); ok && b {
				early = true
			}
		case "response_body":
			if b, ok := a.Value.([]byte); ok {
				body = string(b)
			} else {
				body = fmt.Sprint(a.Value)
			}
		}
	}
	return body, early
}

type routingCacheReplay struct {
	Family  string `json:"family"`
	History []int  `json:"history"`
}

// event 2*u = request of rURLs[u], 2*u+1 = response of rURLs[u]
func runRoutingCache(t *testing.T, hist []int) (fail string) {
	http.DefaultClient.Transport = okTransportR{}
	synctest.Test(t, func(t *testing.T) {
		cfg := sharedConfig.PoliciesConfig{Endpoints: []sharedConfig.EndpointConfig{{URL: "h.com/links/{id}", Method: "GET",
			Remedies: []sharedConfig.Remedy{{Enabled: true, Name: "cache", Config: sharedConfig.RemedyConfig{Caching: &sharedConfig.CachingConfig{
				TTLSeconds: 60, MaxRecordSizeBytes: 1000, MaxCacheSizeMegabytes: 1,
				RequestPayloadPaths: []sharedConfig.PayloadPath{{PayloadType: sharedConfig.PayloadRequestPathParams.String(), Path: "id"}}}}}}}}}
		pd, err := config.BuildPolicyData(&cfg, false)
		if err != nil {
			panic(err)
		}
		acc := config.NewTxnPoliciesAccessor(pd)
		defer func() {
			config.VerifStopVacuums(&acc)
			time.Sleep(3 * time.Minute)
			synctest.Wait()
		}()
		rd := routing.VerifNewPolicyManager(&acc, pd, &services.PoliciesServices{Remedies: services.RemedyPlugins{CachingPlugin: remedies.NewCachingPlugin(clock.NewRealClock())}})
		stored := map[int]bool{}
		open := map[int]string{} // url index -> id of its transaction waiting for a response
		n := 0
		for step, e := range hist {
			u := e / 2
			if e%2 == 0 {
				n++
				id := fmt.Sprintf("t%d", n)
				acts, err := routing.VerifProcessRequest(cacheMsg("lunar-on-request", id, rURLs[u], 0, ""), rd)
				if err != nil {
					fail = fmt.Sprintf("ERROR:routing step %d request: %v", step, err)
					return
				}
				if body, early := earlyBody(acts); early {
					routingCacheHits++
					if !stored[u] {
						fail = fmt.Sprintf("WRONG-KEY:routing GET %s was answered from memory (%q) although no response was ever stored for that URL (stored: %v)", rURLs[u], body, stored)
						return
					}
					if body != "target of "+rURLs[u] {
						fail = fmt.Sprintf("WRONG-REPLAY:routing GET %s was answered from memory with %q, the response stored for it is %q", rURLs[u], body, "target of "+rURLs[u])
						return
					}
				} else {
					open[u] = id
				}
			} else {
				id, ok := open[u]
				if !ok {
					continue
				}
				delete(open, u)
				if _, err := routing.VerifProcessResponse(cacheMsg("lunar-on-response", id, rURLs[u], 200, "target of "+rURLs[u]), rd); err != nil {
					fail = fmt.Sprintf("ERROR:routing step %d response: %v", step, err)
					return
				}
				stored[u] = true
			}
			time.Sleep(time.Second)
		}
	})
	return
}

func routingCacheFamily(t *testing.T, r *mc.Run, shard *int) {
	depth := mc.Pick(r, 5, 6)
	mc.Sequences(6, depth, func(h []int) bool {
		if len(h) == 0 {
			return true
		}
		*shard++
		if !r.Mine(*shard) {
			return true
		}
		fail := runRoutingCache(t, h)
		r.Add("routing_histories", 1)
		r.Add("routing_replays_from_memory", int64(routingCacheHits))
		routingCacheHits = 0
		r.NonTrivial(fmt.Sprint("routing-cache", h))
		if fail != "" {
			r.Violation(strings.SplitN(fail, " ", 2)[0], fmt.Sprintf("caching remedy behind the message handlers, history %v (2u = request, 2u+1 = response of %v): %s", h, rURLs, fail), routingCacheReplay{"routing-cache", append([]int{}, h...)})
		}
		return true
	})
}
