// C12 — stored responses are replayed only for the same key and only while fresh.
// Engines: seqx history BFS over the real CachingPlugin / ResponseBasedThrottlingPlugin
// (real MemoryCache with its sleeper goroutines) in a virtual-time bubble; schedx for
// concurrent stores / expiry.
package c12

import (
	"fmt"
	"math"
	"reflect"
	"sort"
	"strconv"
	"strings"
	"testing"
	"testing/synctest"
	"time"

	"lunar/engine/actions"
	lunarMessages "lunar/engine/messages"
	"lunar/engine/services/remedies"
	sharedConfig "lunar/shared-model/config"
	"lunar/toolkit-core/clock"
	"verifharness/mc"
)

const ttl = 2 * time.Second

type key struct {
	Method string
	URL    string
	ID     string // selected path parameter value
}

var keys = []key{{"GET", "h.com/a", "1"}, {"GET", "h.com/a", "2"}, {"POST", "h.com/a", "1"}}

type cfg struct {
	Mode string // "cache-tight" (two entries fit) | "cache-overwrite" (three small fit, one key may grow) | "cache-roomy" | "throttle-relative" | "throttle-absolute"
}

type event struct {
	kind string // req | resp | tick
	k    int
	body string
	d    time.Duration
	st   int
}

func (e event) String() string {
	switch e.kind {
	case "req":
		return fmt.Sprintf("req(k%d)", e.k+1)
	case "resp":
		b := e.body
		if len(b) > 3 {
			b = fmt.Sprintf("%c*%d", b[0], len(b))
		}
		return fmt.Sprintf("resp(k%d,%s,%d)", e.k+1, b, e.st)
	}
	return fmt.Sprintf("tick(%v)", e.d)
}

var bigBody = strings.Repeat("B", 100)

func alphabet(c cfg) []event {
	var ev []event
	for k := range keys {
		ev = append(ev, event{kind: "req", k: k})
	}
	if strings.HasPrefix(c.Mode, "cache") {
		for k := range keys {
			ev = append(ev, event{kind: "resp", k: k, body: "x", st: 200})
		}
		ev = append(ev, event{kind: "resp", k: 0, body: "y", st: 201})
		if c.Mode == "cache-overwrite" {
			// overwrite of a key still present with a much larger record
			ev = append(ev, event{kind: "resp", k: 0, body: bigBody, st: 200})
		}
	} else {
		ev = append(ev, event{kind: "resp", k: 0, body: "x", st: 429}, event{kind: "resp", k: 2, body: "x", st: 429},
			event{kind: "resp", k: 0, body: "y", st: 429}, event{kind: "resp", k: 0, body: "z", st: 200})
	}
	for _, d := range []time.Duration{ttl - time.Nanosecond, time.Nanosecond, time.Second} {
		ev = append(ev, event{kind: "tick", d: d})
	}
	return ev
}

type stored struct {
	k       int
	at      time.Time
	body    string
	status  int
	headers map[string]string
	life    time.Duration
}

type model struct {
	c      cfg
	alpha  []event
	cache  *remedies.CachingPlugin
	cc     *sharedConfig.CachingConfig
	thr    *remedies.ResponseBasedThrottlingPlugin
	tc     *sharedConfig.ResponseBasedThrottlingConfig
	cands  []stored // every response the remedy was shown (candidates for having been stored)
	n      int
	hits   int
	maxMB  float64
	sizeOK string
}

func entryBytes() int { return 3 + len("h.com/a") + 64 + 2 + 1 + 4 + 8 + len("h") + len("v") }

func newModel(c cfg) *model {
	m := &model{c: c, alpha: alphabet(c)}
	clk := clock.NewRealClock()
	if strings.HasPrefix(c.Mode, "cache") {
		m.cache = remedies.NewCachingPlugin(clk)
		mb := float32(10)
		if c.Mode == "cache-tight" {
			mb = float32(2*entryBytes()+20) / 1024 / 1024
		}
		if c.Mode == "cache-overwrite" {
			// three small records fit, a 100-byte record plus two small ones do not
			mb = float32(3*entryBytes()+27) / 1024 / 1024
		}
		m.cc = &sharedConfig.CachingConfig{TTLSeconds: float32(ttl.Seconds()), MaxRecordSizeBytes: 300, MaxCacheSizeMegabytes: mb,
			RequestPayloadPaths: []sharedConfig.PayloadPath{{PayloadType: sharedConfig.PayloadRequestPathParams.String(), Path: "id"}}}
		m.maxMB = float64(mb)
	} else {
		m.thr = remedies.NewResponseBasedThrottlingPlugin(clk)
		t := sharedConfig.RetryAfterRelativeSeconds
		if c.Mode == "throttle-absolute" {
			t = sharedConfig.RetryAfterAbsoluteEpoch
		}
		hdr := "retry-after"
		if c.Mode == "throttle-relative-capitalised" {
			// the policy spells the header name as HTTP does; the engine hands the remedy
			// lower-cased header names
			hdr = "Retry-After"
		}
		m.tc = &sharedConfig.ResponseBasedThrottlingConfig{RetryAfterHeader: hdr, RetryAfterType: t, RelevantStatuses: []int{429}}
	}
	return m
}

func (m *model) Apply(ei int) string {
	e := m.alpha[ei]
	now := time.Now()
	switch e.kind {
	case "tick":
		time.Sleep(e.d)
		synctest.Wait() // let the cache's expiry sleepers that are due run
		return m.sizeCheck()
	case "resp":
		m.n++
		k := keys[e.k]
		hs := map[string]string{"h": "v"}
		life := ttl
		if m.thr != nil {
			if strings.HasPrefix(m.c.Mode, "throttle-relative") {
				hs["retry-after"] = "2"
			} else {
				hs["retry-after"] = strconv.FormatInt(now.Unix()+2, 10)
				life = time.Unix(now.Unix()+2, 0).Sub(now)
			}
		}
		msg := lunarMessages.OnResponse{ID: fmt.Sprintf("%02d", m.n%100), SequenceID: "s", Method: k.Method, URL: k.URL, Status: e.st, Headers: hs, Body: e.body}
		var err error
		if m.cache != nil {
			_, err = m.cache.OnResponse(msg, m.cc, map[string]string{"id": k.ID})
		} else {
			_, err = m.thr.OnResponse(msg, m.tc)
		}
		if err != nil {
			return "ERROR OnResponse: " + err.Error()
		}
		if m.cache != nil || e.st == 429 {
			hcopy := map[string]string{}
			for a, b := range hs {
				hcopy[a] = b
			}
			m.cands = append(m.cands, stored{e.k, now, e.body, e.st, hcopy, life})
		}
		return m.sizeCheck()
	}
	// request
	m.n++
	k := keys[e.k]
	msg := lunarMessages.OnRequest{ID: fmt.Sprintf("%02d", m.n%100), SequenceID: "s", Method: k.Method, URL: k.URL, Headers: map[string]string{}}
	var act actions.ReqLunarAction
	var err error
	if m.cache != nil {
		act, err = m.cache.OnRequest(msg, m.cc, map[string]string{"id": k.ID})
	} else {
		act, err = m.thr.OnRequest(msg, m.tc)
	}
	if err != nil {
		return "ERROR OnRequest: " + err.Error()
	}
	er, early := act.(*actions.EarlyResponseAction)
	if !early {
		return ""
	}
	m.hits++
	// must be a response stored for the same key and still fresh
	sameKey := func(s stored) bool {
		if m.cache != nil {
			return s.k == e.k
		}
		return keys[s.k].Method == k.Method && keys[s.k].URL == k.URL
	}
	var why []string
	retryAfterFail := ""
	anySame := false
	for _, s := range m.cands {
		if !sameKey(s) {
			continue
		}
		anySame = true
		if s.body != er.Body || s.status != er.Status {
			continue
		}
		age := now.Sub(s.at)
		slack := time.Duration(0)
		if m.c.Mode == "throttle-absolute" {
			slack = time.Microsecond // the epoch value travels as a float64 of seconds
		}
		if age > s.life+slack {
			why = append(why, fmt.Sprintf("stored %v ago, lifetime %v", age, s.life))
			continue
		}
		want := map[string]string{}
		for a, b := range s.headers {
			want[a] = b
		}
		if strings.HasPrefix(m.c.Mode, "throttle-relative") {
			got, perr := strconv.ParseFloat(er.Headers["retry-after"], 64)
			if perr != nil {
				why = append(why, "retry-after not a number: "+er.Headers["retry-after"])
				continue
			}
			if math.Abs(got-(2-age.Seconds())) > 4e-10 {
				retryAfterFail = fmt.Sprintf("RETRY-AFTER replayed throttling response for %s carries retry-after %v, stored 2 s, %v elapsed", e, got, age)
				continue
			}
			want["retry-after"] = er.Headers["retry-after"]
		}
		if !reflect.DeepEqual(want, er.Headers) {
			why = append(why, fmt.Sprintf("headers %v differ from stored %v", er.Headers, want))
			continue
		}
		return ""
	}
	if !anySame {
		return fmt.Sprintf("WRONG-KEY %s was answered from memory (%d %q) although no response was ever stored for that method/URL/parameter", e, er.Status, er.Body)
	}
	if retryAfterFail != "" {
		return retryAfterFail
	}
	return fmt.Sprintf("STALE %s was answered from memory (%d %q %v) but no fresh stored response matches: %v", e, er.Status, er.Body, er.Headers, why)
}

func (m *model) sizeCheck() string {
	if m.cache == nil {
		return ""
	}
	_, actual, _, max, sized := remedies.VerifCachingState(m.cache, time.Now())
	if sized && actual > max+1e-12 {
		return fmt.Sprintf("CACHE-SIZE the cache holds %.0f bytes, configured maximum %.0f bytes", actual*1024*1024, max*1024*1024)
	}
	return ""
}

func (m *model) Key() string {
	now := time.Now()
	var impl string
	if m.cache != nil {
		d, _, acc, _, _ := remedies.VerifCachingState(m.cache, now)
		impl = fmt.Sprintf("%s|acc=%.0f", d, acc*1024*1024)
	} else {
		impl = remedies.VerifThrottlingState(m.thr, now)
	}
	// pending sleepers / candidates that can still matter: everything shown within its lifetime
	var cs []string
	for _, s := range m.cands {
		if age := now.Sub(s.at); age <= s.life {
			cs = append(cs, fmt.Sprintf("k%d:%s:%v", s.k, s.body, age))
		}
	}
	sort.Strings(cs)
	return impl + "||" + strings.Join(cs, ",") + fmt.Sprintf("||ns=%d", now.UnixNano()%int64(time.Second))
}

var configs = []cfg{{"cache-tight"}, {"cache-overwrite"}, {"cache-roomy"}, {"throttle-relative"}, {"throttle-absolute"}, {"throttle-relative-capitalised"}}

func TestCheck(t *testing.T) {
	r := mc.New("C12", "model_checking")
	depth := mc.Pick(r, 6, 7)
	if f := mc.ReplayFile(); f != "" {
		var rc routingCacheReplay
		if err := mc.LoadReplay(f, &rc); err == nil && rc.Family == "routing-cache" {
			fail := runRoutingCache(t, rc.History)
			fmt.Printf("routing-cache history %v -> %q\n", rc.History, fail)
			if fail != "" {
				t.Fail()
			}
			return
		}
		var rp mc.BFSReplay
		if err := mc.LoadReplay(f, &rp); err != nil || rp.Model == "" {
			fmt.Println("replay: schedule findings carry their trace in the replay file")
			return
		}
		if rp.Model == "memory-cache" {
			replayMemcache(t, rp.Path)
			return
		}
		for _, c := range configs {
			if c.Mode != rp.Model {
				continue
			}
			synctest.Test(t, func(t *testing.T) {
				m := newModel(c)
				for i, e := range rp.Path {
					fail := m.Apply(e)
					fmt.Printf("%2d %-20s -> %q  state=%s\n", i, m.alpha[e], fail, m.Key())
					if fail != "" {
						t.Fail()
					}
				}
				time.Sleep(time.Hour)
				synctest.Wait()
			})
		}
		return
	}
	r.Rule = fmt.Sprintf("explicit-state BFS to depth %d over histories of {req(k), resp(k, body, status), tick(TTL-1ns | 1ns | 1s)} on three keys differing in method / selected path parameter, for the caching remedy (cache size: two entries fit / all fit) and the response-based throttling remedy (relative / absolute retry-after); every transition runs the real plugin + MemoryCache (with its expiry sleeper goroutines) in a virtual-time bubble; plus the caching remedy behind the real SPOE message handlers of a policy-mode manager (every history to length 5 of requests / responses of three URLs that differ only in letter case: answered from memory only with the body stored for exactly that URL); plus the MemoryCache component by itself (size 3, ttl 2 s: histories of stores of sizes 1/2/4 under three keys incl. overwrites, clock steps) ; plus schedules of concurrent stores and store-vs-expiry; distinct = state keys", depth)
	r.Assume("safety only: a miss is never a violation (hits are counted in the evidence)", "a response stored exactly TTL ago may still be replayed (boundary instant left open)", "absolute retry-after: 1 microsecond of slack for the float64 seconds representation")
	if r.Parallel(t, 16) {
		r.Finish(t)
		return
	}
	shard := 0
	for _, c := range configs {
		al := alphabet(c)
		for first := range al {
			shard++
			if !r.Mine(shard) {
				continue
			}
			hits := 0
			st, tr := mc.BFS(r, mc.BFSOpts{Name: c.Mode, NEvents: len(al), MaxDepth: depth, Prefix: []int{first}, CheckPrefix: true,
				EvName: func(e int) string { return al[e].String() },
				Run: func(body func(mc.Model)) {
					synctest.Test(t, func(t *testing.T) {
						m := newModel(c)
						body(m)
						hits += m.hits
						time.Sleep(time.Hour)
						synctest.Wait()
					})
				}})
			r.Add("replays_from_memory_observed", int64(hits))
			r.NonTrivial(fmt.Sprintf("%s first=%s states=%d", c.Mode, al[first], st))
			r.Outcome(fmt.Sprintf("%s states=%d", c.Mode, st))
			if first == 3 {
				r.Sample(map[string]any{"config": c.Mode, "first_event": al[first].String(), "states": st, "transitions": tr})
			}
		}
	}
	memcacheFamily(t, r, &shard)
	routingCacheFamily(t, r, &shard)
	r.Add("traces_validated_against_impl", r.Counters["transitions"])
	schedules(t, r)
	r.Finish(t)
}

// schedules: concurrent stores into a size-limited cache, and a store racing the expiry of
// the previous entry for the same key.
func schedules(t *testing.T, r *mc.Run) {
	pre := mc.Pick(r, 2, 3)
	// (1) two concurrent stores of different keys, only one more entry fits
	mc.Explore(t, r, &mc.SchedOpts{Name: "two-stores-one-slot-left", MaxPreempt: pre, MaxT: 0,
		Body: func(x *mc.Exec) {
			m := newModel(cfg{"cache-tight"})
			x.Vals["m"] = m
			// pre-fill one entry sequentially
			m.cache.OnResponse(lunarMessages.OnResponse{ID: "00", Method: "GET", URL: "h.com/a", Status: 200, Headers: map[string]string{"h": "v"}, Body: "x"}, m.cc, map[string]string{"id": "1"})
			for i, k := range []key{keys[1], keys[2]} {
				name := fmt.Sprintf("S%d", i)
				x.Go(name, func() {
					m.cache.OnResponse(lunarMessages.OnResponse{ID: "0" + fmt.Sprint(i+1), Method: k.Method, URL: k.URL, Status: 200, Headers: map[string]string{"h": "v"}, Body: "x"}, m.cc, map[string]string{"id": k.ID})
					x.Logf("%s stored", name)
				})
			}
		},
		Check: func(x *mc.Exec) (string, string) {
			m := x.Vals["m"].(*model)
			d, actual, _, max, _ := remedies.VerifCachingState(m.cache, time.Now())
			x.Logf("entries=%d", strings.Count(d, ";")+1)
			if actual > max+1e-12 {
				return "CACHE-SIZE:concurrent-stores", fmt.Sprintf("after two concurrent stores the cache holds %.0f bytes, configured maximum %.0f bytes (%s)", actual*1024*1024, max*1024*1024, d)
			}
			return "", ""
		}})
	// (1b) two in-flight responses for the same key (both requests missed), the second one
	// much larger; afterwards two more small records are offered one after the other
	mc.Explore(t, r, &mc.SchedOpts{Name: "two-stores-same-key-growing", MaxPreempt: pre, MaxT: 0,
		Body: func(x *mc.Exec) {
			m := newModel(cfg{"cache-overwrite"})
			x.Vals["m"] = m
			for i, body := range []string{"x", bigBody} {
				name := fmt.Sprintf("S%d", i)
				x.Go(name, func() {
					m.cache.OnResponse(lunarMessages.OnResponse{ID: "0" + fmt.Sprint(i+1), Method: keys[0].Method, URL: keys[0].URL, Status: 200, Headers: map[string]string{"h": "v"}, Body: body}, m.cc, map[string]string{"id": keys[0].ID})
					x.Logf("%s stored", name)
				})
			}
		},
		Check: func(x *mc.Exec) (string, string) {
			m := x.Vals["m"].(*model)
			for i, k := range []key{keys[1], keys[2]} {
				m.cache.OnResponse(lunarMessages.OnResponse{ID: "1" + fmt.Sprint(i), Method: k.Method, URL: k.URL, Status: 200, Headers: map[string]string{"h": "v"}, Body: "x"}, m.cc, map[string]string{"id": k.ID})
			}
			d, actual, _, max, _ := remedies.VerifCachingState(m.cache, time.Now())
			x.Logf("entries=%d bytes=%.0f", strings.Count(d, ";")+1, actual*1024*1024)
			if actual > max+1e-12 {
				return "CACHE-SIZE:overwrite-growing", fmt.Sprintf("after two in-flight responses for one key and two further stores the cache holds %.0f bytes, configured maximum %.0f bytes (%s)", actual*1024*1024, max*1024*1024, d)
			}
			return "", ""
		}})
	// (2) reader vs expiry sleeper at the expiry instant
	mc.Explore(t, r, &mc.SchedOpts{Name: "read-vs-expiry", MaxPreempt: pre, MaxEarlyT: 1, Quantum: ttl, MaxT: 3,
		Body: func(x *mc.Exec) {
			m := newModel(cfg{"cache-roomy"})
			x.Vals["m"] = m
			m.cache.OnResponse(lunarMessages.OnResponse{ID: "00", Method: "GET", URL: "h.com/a", Status: 200, Headers: map[string]string{"h": "v"}, Body: "x"}, m.cc, map[string]string{"id": "1"})
			x.Go("R", func() {
				time.Sleep(ttl)
				act, _ := m.cache.OnRequest(lunarMessages.OnRequest{ID: "01", Method: "GET", URL: "h.com/a", Headers: map[string]string{}}, m.cc, map[string]string{"id": "1"})
				if er, ok := act.(*actions.EarlyResponseAction); ok {
					x.Logf("R hit %d %q", er.Status, er.Body)
					if er.Status != 200 || er.Body != "x" {
						x.Fail("WRONG-REPLAY", fmt.Sprintf("a request racing the expiry of its entry was answered with %d %q, which was never stored", er.Status, er.Body))
					}
				} else {
					x.Logf("R miss")
				}
			})
		}})
}
