package c12

// Component-level family: the MemoryCache itself (the store behind both remedies) with a size
// limit, driven with every history of stores (three keys, three record sizes, overwrites of
// keys that are still present included), and clock steps around the time-to-live.  Invariant
// on every state: the records the cache holds never add up to more than its configured size.

import (
	"fmt"
	"testing"
	"testing/synctest"
	"time"

	"lunar/engine/utils"
	"lunar/toolkit-core/clock"
	"verifharness/mc"
)

const mcMax = 3.0

var mcTTL = 2 * time.Second

type mcEvent struct {
	key  int
	size int
	d    time.Duration
}

func (e mcEvent) String() string {
	if e.d > 0 {
		return fmt.Sprintf("tick(%v)", e.d)
	}
	return fmt.Sprintf("set(k%d,size=%d)", e.key, e.size)
}

func mcAlphabet() []mcEvent {
	var a []mcEvent
	for k := 1; k <= 3; k++ {
		for _, s := range []int{1, 2, 4} {
			a = append(a, mcEvent{key: k, size: s})
		}
	}
	return append(a, mcEvent{d: time.Second}, mcEvent{d: mcTTL + time.Nanosecond})
}

type mcModel struct {
	cache *utils.MemoryCache[int, int]
	alpha []mcEvent
}

func newMCModel() *mcModel {
	c := utils.NewMemoryCache[int, int](clock.NewRealClock())
	c.WithMaxCacheSize(func(_ int, v int) float64 { return float64(v) }, mcMax)
	return &mcModel{cache: c, alpha: mcAlphabet()}
}

func (m *mcModel) dump() (string, float64, float64) {
	d, actual, accounted, _, _ := utils.VerifCacheDump[int, int](m.cache, time.Now(), func(k, v int) string { return fmt.Sprintf("k%d=%d", k, v) })
	return d, actual, accounted
}

func (m *mcModel) Apply(ei int) string {
	e := m.alpha[ei]
	if e.d > 0 {
		time.Sleep(e.d)
		synctest.Wait()
	} else {
		_ = m.cache.Set(e.key, e.size, mcTTL.Seconds()) // a refused store is not a violation
	}
	d, actual, _ := m.dump()
	if actual > mcMax+1e-9 {
		return fmt.Sprintf("CACHE-SIZE:component the cache holds records of total size %.0f, configured size %.0f (%s)", actual, mcMax, d)
	}
	return ""
}

func (m *mcModel) Key() string {
	d, _, accounted := m.dump()
	return fmt.Sprintf("%s|accounted=%.0f", d, accounted)
}

func memcacheFamily(t *testing.T, r *mc.Run, shard *int) {
	al := mcAlphabet()
	depth := mc.Pick(r, 7, 9)
	for first := range al {
		*shard++
		if !r.Mine(*shard) {
			continue
		}
		st, tr := mc.BFS(r, mc.BFSOpts{Name: "memory-cache", NEvents: len(al), MaxDepth: depth, Prefix: []int{first}, CheckPrefix: true,
			EvName:   func(e int) string { return al[e].String() },
			Classify: func(fail string, _ []int) string { return "CACHE-SIZE:component" },
			Run: func(body func(mc.Model)) {
				synctest.Test(t, func(t *testing.T) {
					m := newMCModel()
					body(m)
					time.Sleep(time.Hour)
					synctest.Wait()
				})
			}})
		r.NonTrivial(fmt.Sprintf("memory-cache first=%s states=%d", al[first], st))
		r.Outcome(fmt.Sprintf("memory-cache states=%d", st))
		if first == 1 {
			r.Sample(map[string]any{"config": "memory-cache (size 3, ttl 2 s)", "first_event": al[first].String(), "states": st, "transitions": tr})
		}
	}
}

func replayMemcache(t *testing.T, path []int) {
	synctest.Test(t, func(t *testing.T) {
		m := newMCModel()
		for i, e := range path {
			fail := m.Apply(e)
			fmt.Printf("%2d %-18s -> %q  state=%s\n", i, m.alpha[e], fail, m.Key())
			if fail != "" {
				t.Fail()
			}
		}
		time.Sleep(time.Hour)
		synctest.Wait()
	})
}
