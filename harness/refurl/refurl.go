// Package refurl is the independent reference matcher for lunar URL patterns shared by
// the C03 / C13 / C14 harnesses.  A pattern is "host/seg/seg…": host labels separated by
// '.', path segments by '/'.  A part is a literal, a parameter "{name}" (exactly one
// non-empty part of the same kind) or, as the very last part only, the wildcard "*".
package refurl

import "strings"

type Part struct {
	Host bool
	Val  string
}

func Split(u string) []Part {
	u = strings.Trim(u, "./")
	segs := strings.Split(u, "/")
	var out []Part
	for _, h := range strings.Split(segs[0], ".") {
		out = append(out, Part{true, h})
	}
	for _, s := range segs[1:] {
		out = append(out, Part{false, s})
	}
	return out
}

func IsParam(s string) bool { return strings.HasPrefix(s, "{") && strings.HasSuffix(s, "}") }

type MatchKind int

const (
	No       MatchKind = iota
	ZeroTail           // wildcard pattern matched with zero tail parts (the statement does not fix this case)
	Yes
)

// Match reports whether url matches pattern.  Params: the url parts at parameter positions.
func Match(pattern, url string) (MatchKind, map[string]string) {
	pp, up := Split(pattern), Split(url)
	params := map[string]string{}
	for i, p := range pp {
		if p.Val == "*" && i == len(pp)-1 {
			// every remaining url part must be of a kind that can follow (host parts only
			// before path parts is guaranteed by Split)
			if i < len(up) {
				if p.Host && !up[i].Host {
					// "h.*" style host wildcard followed by path parts: still a tail
					return Yes, params
				}
				return Yes, params
			}
			return ZeroTail, params
		}
		if i >= len(up) {
			return No, nil
		}
		if p.Host != up[i].Host {
			return No, nil
		}
		if IsParam(p.Val) {
			if up[i].Val == "" {
				return No, nil
			}
			params[strings.Trim(p.Val, "{}")] = up[i].Val
			continue
		}
		if p.Val != up[i].Val {
			return No, nil
		}
	}
	if len(up) != len(pp) {
		return No, nil
	}
	return Yes, params
}

// Shadowed reports whether pattern p, although it matches url, may legitimately be skipped
// by a non-backtracking trie because ANOTHER configured pattern q has, at a position where
// p has a parameter or is inside its wildcard, a literal equal to the url's part, with all
// earlier parts of q matching the url in the same way p's do (equal literal, or parameter).
func Shadowed(p string, others []string, url string) bool {
	pp, up := Split(p), Split(url)
	for _, q := range others {
		if q == p {
			continue
		}
		qp := Split(q)
		for i := 0; i < len(qp) && i < len(up); i++ {
			// p's part at i: parameter, or beyond/at its trailing wildcard
			pIsLoose := false
			if i < len(pp) {
				pIsLoose = IsParam(pp[i].Val) || (pp[i].Val == "*" && i == len(pp)-1)
			} else if len(pp) > 0 && pp[len(pp)-1].Val == "*" {
				pIsLoose = true
			}
			qLit := !IsParam(qp[i].Val) && qp[i].Val != "*"
			if pIsLoose && qLit && qp[i].Val == up[i].Val && qp[i].Host == up[i].Host {
				return true
			}
			// q must keep following the url to stay on the same trie path
			if qLit {
				if qp[i].Val != up[i].Val {
					break
				}
			} else if qp[i].Val == "*" {
				break
			}
		}
	}
	return false
}

// Specificity orders matching patterns: literal > parameter > wildcard, part by part.
// Returns -1 if a is more specific than b for this url, 1 if less, 0 if equal.
func Specificity(a, b string) int {
	ap, bp := Split(a), Split(b)
	rank := func(parts []Part, i int) int {
		if i >= len(parts) {
			if len(parts) > 0 && parts[len(parts)-1].Val == "*" {
				return 2 // inside the wildcard's tail
			}
			return -1 // pattern ends here: nothing is more specific than an exact end
		}
		switch {
		case parts[i].Val == "*" && i == len(parts)-1:
			return 2
		case IsParam(parts[i].Val):
			return 1
		}
		return 0
	}
	n := len(ap)
	if len(bp) > n {
		n = len(bp)
	}
	for i := 0; i < n; i++ {
		ra, rb := rank(ap, i), rank(bp, i)
		if ra != rb {
			if ra < rb {
				return -1
			}
			return 1
		}
	}
	return 0
}
