// C05 — every configuration the loader accepts runs safely on all traffic.
// Engine: seqx product enumeration.  Every flow graph of a bounded family that the YAML
// schema can express (cycles anywhere in either direction, self loops, rootless directions,
// unreachable nodes) plus a list of schema-expressible oddities (dangling references,
// duplicate keys, missing parameters, odd quota files) is written to disk and submitted to
// the real validator (validation.Validator, the code behind validate_flows / load_flows /
// flows-validator).  For every accepted configuration: the normal load must succeed, and
// every transaction of the input family must finish after a bounded number of processor
// executions (counted by the executed-processor hook) and return actions or an error -
// no panic, no unbounded recursion.
package c05

import (
	"fmt"
	"os"
	"runtime/debug"
	"strings"
	"testing"

	"lunar/engine/streams"
	"lunar/engine/streams/validation"
	"verifharness/eng"
	fg "verifharness/flowgen"
	"verifharness/mc"
	"verifharness/probe"
)

const stepLimit = 64

type replay struct {
	Family string            `json:"family"`
	Flows  map[string]string `json:"flows"`
	Quotas map[string]string `json:"quotas,omitempty"`
	Plan   map[string]string `json:"plan,omitempty"`
	Txn    string            `json:"transaction,omitempty"`
}

var procDir string

// validate runs the real validator on the files (as validate_flows does).
func validate(files eng.Files) (err error) {
	root, derr := eng.Dir(files, procDir)
	if derr != nil {
		return derr
	}
	eng.Point(root, procDir)
	defer func() {
		if p := recover(); p != nil {
			err = fmt.Errorf("VALIDATOR-PANIC: %v", p)
		}
	}()
	return validation.NewValidator().Validate()
}

type txn struct {
	Name    string
	URL     string
	Body    string
	Headers map[string]string
	Status  int
}

var txns = []txn{
	{"plain", "h.com/x", "", nil, 200},
	{"malformed-json-body", "h.com/x", "{\"a\":", map[string]string{"content-type": "application/json"}, 200},
	{"binary-body-odd-headers", "h.com/x", "\x00\xff\xfe", map[string]string{"": "v", "x-empty": ""}, 500},
	{"odd-url", "h.com/x/%zz/../..//", "", nil, 0},
	{"other-host", "other.org/", "", nil, 200},
}

// runSafe runs one transaction; returns "" or (clause, what).
func runSafe(s *streams.Stream, t txn, plan map[string]string, id string) (clause, what string, evs []string) {
	probe.Reset(plan)
	probe.Limit = stepLimit
	defer func() { probe.Limit = 0 }()
	guard := func(phase string, f func()) (c, w string) {
		defer func() {
			if p := recover(); p != nil {
				if le, ok := p.(probe.LimitExceeded); ok {
					c, w = "UNBOUNDED:"+phase, fmt.Sprintf("%s: %v for one transaction (the walk does not terminate)", phase, le)
					return
				}
				c, w = "PANIC:"+phase, fmt.Sprintf("%s: panic: %v\n%s", phase, p, firstFrames(string(debug.Stack())))
			}
		}()
		f()
		return
	}
	early := false
	c, w := guard("request", func() {
		v := eng.OnRequest(s, eng.Req{ID: id, URL: t.URL, Body: t.Body, Headers: t.Headers})
		early = v.Early
	})
	evs = probe.Trace()
	if c != "" {
		return c, w, evs
	}
	if !early {
		probe.Events = nil
		c, w = guard("response", func() {
			eng.OnResponse(s, eng.Resp{ID: id, URL: t.URL, Body: t.Body, Headers: t.Headers, Status: t.Status})
		})
		evs = append(evs, probe.Trace()...)
	}
	return c, w, evs
}

func firstFrames(st string) string {
	var out []string
	for _, l := range strings.Split(st, "\n") {
		if strings.HasPrefix(l, "lunar/") {
			out = append(out, l)
			if len(out) == 4 {
				break
			}
		}
	}
	return strings.Join(out, " <- ")
}

// panicSite extracts a stable key part from a panic explanation.
func panicSite(w string) string {
	if i := strings.Index(w, "lunar/"); i >= 0 {
		s := w[i:]
		if j := strings.IndexAny(s, "( "); j > 0 {
			return s[:j]
		}
	}
	return "unknown"
}

// any enumerates graphs over keys: root in {-1, 0..n-1}, each node <= maxEdges ordered
// connections to any node (itself included) or the stream end.
func anyGraphs(keys []string, conds []string, maxEdges int, f func(fg.Graph)) {
	n := len(keys)
	var opts []fg.Edge
	for _, c := range conds {
		for j := 0; j < n; j++ {
			opts = append(opts, fg.Edge{Cond: c, To: j})
		}
		opts = append(opts, fg.Edge{Cond: c, To: fg.End})
	}
	lists := fg.EdgeLists(opts, maxEdges)
	idx := make([]int, n)
	for {
		for root := -1; root < n; root++ {
			g := fg.Graph{Nodes: keys, Root: root, Edges: make([][]fg.Edge, n)}
			for i := range idx {
				g.Edges[i] = lists[idx[i]]
			}
			f(g)
		}
		k := n - 1
		for k >= 0 {
			idx[k]++
			if idx[k] < len(lists) {
				break
			}
			idx[k] = 0
			k--
		}
		if k < 0 {
			return
		}
	}
}

func outs(keys []string, dir, flow string, choices []string) []map[string]string {
	res := []map[string]string{{}}
	for _, k := range keys {
		var next []map[string]string
		for _, m := range res {
			for _, o := range choices {
				c := map[string]string{}
				for kk, v := range m {
					c[kk] = v
				}
				c[dir+":"+flow+"/"+k] = o
				next = append(next, c)
			}
		}
		res = next
	}
	return res
}

var txnN, sampleN int

func checkConfig(r *mc.Run, family string, files eng.Files, plans []map[string]string, desc string) {
	if family == "oddities" {
		mc.Announce("family " + family + ": " + desc) // attribution if the process dies
	}
	verr := validate(files)
	r.Add("configurations", 1)
	if family == "oddities" && os.Getenv("VERIF_DEBUG") != "" {
		fmt.Printf("ODD %-70s -> %v\n", desc, verr)
	}
	if verr != nil {
		if strings.HasPrefix(verr.Error(), "VALIDATOR-PANIC") {
			r.Violation("PANIC:validator:"+panicSite(verr.Error()), fmt.Sprintf("family %s %s: the validator itself panicked: %v", family, desc, verr), replay{family, files.Flows, files.Quotas, nil, ""})
			return
		}
		r.Add("rejected", 1)
		sampleN++
		if sampleN%397 == 2 || family == "oddities" {
			r.Sample(map[string]any{"family": family, "configuration": desc, "verdict": "rejected: " + cut(verr.Error())})
		}
		r.Outcome("rejected: " + cut(verr.Error()))
		return
	}
	r.Add("accepted", 1)
	var s *streams.Stream
	var lerr error
	func() {
		defer func() {
			if p := recover(); p != nil {
				lerr = fmt.Errorf("LOAD-PANIC: %v %s", p, firstFrames(string(debug.Stack())))
			}
		}()
		s, _, lerr = eng.NewStreamP(files, procDir)
	}()
	if lerr != nil {
		r.Violation("ACCEPTED-BUT-LOAD-FAILS", fmt.Sprintf("family %s %s: the validator accepts the configuration but loading it fails: %v", family, desc, lerr), replay{family, files.Flows, files.Quotas, nil, ""})
		return
	}
	r.NonTrivial(family + "|" + desc)
	sampleN++
	if sampleN%97 == 1 || family == "oddities" {
		r.Sample(map[string]any{"family": family, "configuration": desc, "verdict": "accepted by the validator", "inputs_run": len(plans)})
	}
	for _, plan := range plans {
		for _, t := range txns {
			txnN++
			clause, what, evs := runSafe(s, t, plan, fmt.Sprintf("t%d", txnN))
			r.Add("evaluations", 1)
			if clause != "" {
				key := clause
				if strings.HasPrefix(clause, "PANIC") {
					key += ":" + panicSite(what)
				}
				r.Violation(key, fmt.Sprintf("family %s %s accepted by the validator; transaction %s with outputs %v: %s; events so far %v", family, desc, t.Name, plan, what, head(evs)),
					replay{family, files.Flows, files.Quotas, plan, t.Name})
				return
			}
			r.Outcome(fmt.Sprintf("accepted, %d events", len(evs)))
			if family != "oddities" && t.Name == "plain" {
				break // probe-only flows do not look at the transaction content
			}
		}
	}
}

func head(e []string) []string {
	if len(e) > 12 {
		return append(append([]string{}, e[:12]...), "…")
	}
	return e
}

func cut(s string) string {
	if len(s) > 90 {
		return s[:90]
	}
	return s
}

func TestCheck(t *testing.T) {
	r := mc.New("C05", "exploration")
	procDir = probe.Install()
	if f := mc.ReplayFile(); f != "" {
		var rp replay
		if err := mc.LoadReplay(f, &rp); err != nil {
			t.Fatal(err)
		}
		files := eng.Files{Flows: rp.Flows, Quotas: rp.Quotas}
		fmt.Println("validator:", validate(files))
		s, _, err := eng.NewStreamP(files, procDir)
		fmt.Println("load:", err)
		if err == nil {
			for _, tx := range txns {
				if rp.Txn == "" || tx.Name == rp.Txn {
					c, w, evs := runSafe(s, tx, rp.Plan, "replay-"+tx.Name)
					fmt.Printf("txn %s: %s %s\nevents %v\n", tx.Name, c, w, head(evs))
				}
			}
		}
		for n, y := range rp.Flows {
			fmt.Printf("--- %s\n%s", n, y)
		}
		t.Fail()
		return
	}
	r.Rule = "request direction: every graph over <=2 probe processors (any root or none, <=2 ordered connections per node to any node incl. itself or the stream end, conditions {none,a}) and over 3 processors with <=1 connection per node (thorough: <=2); response direction: the same families over {P1 (a request processor that may answer early), R1, (R2)}; x every output choice per processor (none / a / answers early); plus a list of schema oddities and quota files x 5 transactions (malformed body, odd headers, odd URL); non-trivial = configurations the validator accepts; distinct = (family, configuration)"
	r.Assume(fmt.Sprintf("bounded = at most %d processor executions per transaction direction", stepLimit), "processors of the generated graphs are harness probes; oddities use built-in processors")
	if r.Parallel(t, 16) {
		r.Finish(t)
		return
	}
	idx := 0
	mine := func() bool { idx++; return r.Mine(idx) }
	simpleRes := func(keys []string) fg.Graph { // every request node -> stream end (no root)
		g := fg.Graph{Nodes: keys, Root: -1, Edges: make([][]fg.Edge, len(keys))}
		for i := range g.Edges {
			g.Edges[i] = []fg.Edge{{Cond: "", To: fg.End}}
		}
		return g
	}
	// request direction
	reqFamily := func(keys []string, maxEdges int) {
		anyGraphs(keys, []string{"", "a"}, maxEdges, func(g fg.Graph) {
			if !mine() {
				return
			}
			files := eng.Files{Flows: map[string]string{"f.yaml": fg.FlowYAML("f", "h.com/*", g, simpleRes(keys))}}
			checkConfig(r, "request-graphs", files, outs(keys, "req", "f", []string{"", "a", "early"}), "request {"+g.String()+"}")
		})
	}
	reqFamily([]string{"P1"}, 2)
	reqFamily([]string{"P1", "P2"}, 2)
	reqFamily([]string{"P1", "P2", "P3"}, mc.Pick(r, 1, 2))
	// response direction: P1 is the request processor (may answer early), R* response-only
	resFamily := func(keys []string, maxEdges int) {
		req := fg.Graph{Nodes: []string{"P1"}, Root: 0, Edges: [][]fg.Edge{{{Cond: "", To: fg.End}}}}
		anyGraphs(keys, []string{"", "a"}, maxEdges, func(g fg.Graph) {
			if !mine() {
				return
			}
			files := eng.Files{Flows: map[string]string{"f.yaml": fg.FlowYAML("f", "h.com/*", req, g)}}
			var plans []map[string]string
			for _, p1 := range []string{"", "early"} {
				for _, m := range outs(keys, "res", "f", []string{"", "a"}) {
					m["req:f/P1"] = p1
					plans = append(plans, m)
				}
			}
			checkConfig(r, "response-graphs", files, plans, "response {"+g.String()+"}")
		})
	}
	resFamily([]string{"P1"}, 2)
	resFamily([]string{"P1", "R1"}, 2)
	resFamily([]string{"P1", "R1", "R2"}, mc.Pick(r, 1, 2))
	// oddities
	for _, o := range oddities() {
		if !mine() {
			continue
		}
		checkConfig(r, "oddities", o.files, []map[string]string{{}}, o.name)
	}
	_ = os.Getenv
	r.Finish(t)
}
