package c05

import (
	"fmt"

	"verifharness/eng"
)

type oddity struct {
	name  string
	files eng.Files
}

func flowWith(name, url, processors, request, response string) string {
	s := fmt.Sprintf("name: %s\nfilter:\n  url: %s\nprocessors:\n%sflow:\n  request:\n%s", name, url, processors, request)
	if response == "" {
		response = streamToStream
	}
	return s + "  response:\n" + response
}

const streamToStream = "    - from:\n        stream:\n          name: globalStream\n          at: start\n      to:\n        stream:\n          name: globalStream\n          at: end\n"

const (
	startTo = "    - from:\n        stream:\n          name: globalStream\n          at: start\n      to:\n        processor:\n          name: %s\n"
	toEnd   = "    - from:\n        processor:\n          name: %s\n      to:\n        stream:\n          name: globalStream\n          at: end\n"
	toProc  = "    - from:\n        processor:\n          name: %s\n      to:\n        processor:\n          name: %s\n"
	condTo  = "    - from:\n        processor:\n          name: %s\n          condition: %s\n      to:\n        processor:\n          name: %s\n"
	condEnd = "    - from:\n        processor:\n          name: %s\n          condition: %s\n      to:\n        stream:\n          name: globalStream\n          at: end\n"
)

func f(format string, a ...any) string { return fmt.Sprintf(format, a...) }

func quota(body string) map[string]string { return map[string]string{"q.yaml": body} }

const goodQuota = "quotas:\n  - id: Q\n    filter:\n      url: h.com/*\n    strategy:\n      fixed_window:\n        max: 5\n        interval: 10\n        interval_unit: second\n"

func oddities() []oddity {
	mock := "  M:\n    processor: MockProcessor\n"
	gen := "  G:\n    processor: GenerateResponse\n    parameters:\n      - key: status\n        value: 418\n"
	lim := "  L:\n    processor: Limiter\n    parameters:\n      - key: quota_id\n        value: Q\n"
	filt := "  F:\n    processor: Filter\n    parameters:\n      - key: header\n        value: x-a=1\n"
	var out []oddity
	add := func(name string, flows map[string]string, quotas map[string]string) {
		out = append(out, oddity{name, eng.Files{Flows: flows, Quotas: quotas}})
	}
	one := func(y string) map[string]string { return map[string]string{"f.yaml": y} }
	add("dangling: connection to an undefined processor", one(flowWith("f", "h.com/*", mock, f(startTo, "M")+f(condTo, "M", "output_1", "NOPE")+f(toEnd, "NOPE"), "")), nil)
	add("dangling: connection from an undefined processor", one(flowWith("f", "h.com/*", mock, f(startTo, "M")+f(toEnd, "NOPE"), "")), nil)
	add("dangling: stream start to an undefined processor", one(flowWith("f", "h.com/*", mock, f(startTo, "NOPE"), "")), nil)
	add("unknown processor type", one(flowWith("f", "h.com/*", "  X:\n    processor: NoSuchProcessor\n", f(startTo, "X")+f(toEnd, "X"), "")), nil)
	add("duplicate processor key", one(flowWith("f", "h.com/*", mock+mock, f(startTo, "M")+f(condEnd, "M", "output_1"), "")), nil)
	add("duplicate flow name in two files", map[string]string{"a.yaml": flowWith("f", "h.com/*", mock, f(startTo, "M")+f(condEnd, "M", "output_1"), ""), "b.yaml": flowWith("f", "h.com/b/*", mock, f(startTo, "M")+f(condEnd, "M", "output_1"), "")}, nil)
	add("flow without a name", one(flowWith("\"\"", "h.com/*", mock, f(startTo, "M")+f(condEnd, "M", "output_1"), "")), nil)
	add("flow without a filter url", one("name: f\nfilter: {}\nprocessors:\n"+mock+"flow:\n  request:\n"+f(startTo, "M")+f(condEnd, "M", "output_1")+"  response:\n"+streamToStream), nil)
	add("no processors section, stream to stream", one("name: f\nfilter:\n  url: h.com/*\nflow:\n  request:\n    - from:\n        stream:\n          name: globalStream\n          at: start\n      to:\n        stream:\n          name: globalStream\n          at: end\n  response:\n"+streamToStream), nil)
	add("empty request section", one("name: f\nfilter:\n  url: h.com/*\nprocessors:\n"+mock+"flow:\n  request: []\n  response:\n"+streamToStream), nil)
	add("response only flow", one("name: f\nfilter:\n  url: h.com/*\nprocessors:\n"+mock+"flow:\n  request:\n"+streamToStream+"  response:\n"+f(startTo, "M")+f(condEnd, "M", "output_1")), nil)
	add("condition that the processor does not have", one(flowWith("f", "h.com/*", mock, f(startTo, "M")+f(condEnd, "M", "nope"), "")), nil)
	add("limiter without quota_id", one(flowWith("f", "h.com/*", "  L:\n    processor: Limiter\n", f(startTo, "L")+f(condEnd, "L", "below_limit")+f(condEnd, "L", "above_limit"), "")), quota(goodQuota))
	add("limiter with unknown quota", one(flowWith("f", "h.com/*", "  L:\n    processor: Limiter\n    parameters:\n      - key: quota_id\n        value: NOPE\n", f(startTo, "L")+f(condEnd, "L", "below_limit")+f(condEnd, "L", "above_limit"), "")), quota(goodQuota))
	add("limiter whose above_limit branch loops back to itself", one(flowWith("f", "h.com/*", lim, f(startTo, "L")+f(condEnd, "L", "below_limit")+f(condTo, "L", "above_limit", "L"), "")), quota("quotas:\n  - id: Q\n    filter:\n      url: h.com/*\n    strategy:\n      fixed_window:\n        max: 1\n        interval: 10\n        interval_unit: second\n"))
	add("filter hit loops through a mock back to the filter", one(flowWith("f", "h.com/*", filt+mock, f(startTo, "F")+f(condTo, "F", "hit", "M")+f(condEnd, "F", "miss")+f(condTo, "M", "output_1", "F"), "")), nil)
	add("generate response with a cyclic, rootless response direction", one(flowWith("f", "h.com/*", gen+mock+filt, f(startTo, "F")+f(condTo, "F", "miss", "G")+f(condEnd, "F", "hit"), f(toProc, "G", "M")+f(condTo, "M", "output_1", "G"))), nil)
	add("generate response whose response connection points to itself", one(flowWith("f", "h.com/*", gen+filt, f(startTo, "F")+f(condTo, "F", "miss", "G")+f(condEnd, "F", "hit"), f(toProc, "G", "G"))), nil)
	add("generate response without any response connection", one(flowWith("f", "h.com/*", gen+filt, f(startTo, "F")+f(condTo, "F", "miss", "G")+f(condEnd, "F", "hit"), "")), nil)
	add("generate response: non-numeric status", one(flowWith("f", "h.com/*", "  G:\n    processor: GenerateResponse\n    parameters:\n      - key: status\n        value: abc\n"+filt, f(startTo, "F")+f(condTo, "F", "miss", "G")+f(condEnd, "F", "hit"), f(toEnd, "G"))), nil)
	add("parameter of the wrong type", one(flowWith("f", "h.com/*", "  M:\n    processor: MockProcessor\n    parameters:\n      - key: arg1\n        value: [1, 2]\n", f(startTo, "M")+f(condEnd, "M", "output_1"), "")), nil)
	add("duplicate parameter key", one(flowWith("f", "h.com/*", "  M:\n    processor: MockProcessor\n    parameters:\n      - key: arg2\n        value: x\n      - key: arg2\n        value: y\n", f(startTo, "M")+f(condEnd, "M", "output_1"), "")), nil)
	add("reference to a flow that does not exist", one("name: f\nfilter:\n  url: h.com/*\nprocessors:\n"+mock+"flow:\n  request:\n"+f(startTo, "M")+"    - from:\n        processor:\n          name: M\n          condition: output_1\n      to:\n        flow:\n          name: ghost\n          at: start\n  response:\n"+streamToStream), nil)
	add("a flow that references itself", one("name: f\nfilter:\n  url: h.com/*\nprocessors:\n"+mock+"flow:\n  request:\n"+f(startTo, "M")+"    - from:\n        processor:\n          name: M\n          condition: output_1\n      to:\n        flow:\n          name: f\n          at: start\n  response:\n"+streamToStream), nil)
	add("two flows that reference each other", map[string]string{
		"a.yaml": "name: fa\nfilter:\n  url: h.com/*\nprocessors:\n  A:\n    processor: MockProcessor\nflow:\n  request:\n" + f(startTo, "A") + "    - from:\n        processor:\n          name: A\n          condition: output_1\n      to:\n        flow:\n          name: fb\n          at: start\n  response:\n" + streamToStream,
		"b.yaml": "name: fb\nfilter:\n  url: h.com/*\nprocessors:\n  B:\n    processor: MockProcessor\nflow:\n  request:\n" + f(startTo, "B") + "    - from:\n        processor:\n          name: B\n          condition: output_1\n      to:\n        flow:\n          name: fa\n          at: start\n  response:\n" + streamToStream,
	}, nil)
	// quota files
	okFlow := one(flowWith("f", "h.com/*", lim, f(startTo, "L")+f(condEnd, "L", "below_limit")+f(condEnd, "L", "above_limit"), ""))
	add("quota: no strategy", okFlow, quota("quotas:\n  - id: Q\n    filter:\n      url: h.com/*\n"))
	add("quota: negative max", okFlow, quota("quotas:\n  - id: Q\n    filter:\n      url: h.com/*\n    strategy:\n      fixed_window:\n        max: -1\n        interval: 10\n        interval_unit: second\n"))
	add("quota: zero interval", okFlow, quota("quotas:\n  - id: Q\n    filter:\n      url: h.com/*\n    strategy:\n      fixed_window:\n        max: 1\n        interval: 0\n        interval_unit: second\n"))
	add("quota: unknown interval unit", okFlow, quota("quotas:\n  - id: Q\n    filter:\n      url: h.com/*\n    strategy:\n      fixed_window:\n        max: 1\n        interval: 1\n        interval_unit: fortnight\n"))
	add("quota: duplicate ids", okFlow, quota(goodQuota+"  - id: Q\n    filter:\n      url: h.com/b/*\n    strategy:\n      fixed_window:\n        max: 5\n        interval: 10\n        interval_unit: second\n"))
	add("quota: two hosts in one file", okFlow, quota(goodQuota+"  - id: Q2\n    filter:\n      url: other.org/*\n    strategy:\n      fixed_window:\n        max: 5\n        interval: 10\n        interval_unit: second\n"))
	add("quota: child with unknown parent", okFlow, quota(goodQuota+"internal_limits:\n  - id: C\n    parent_id: NOPE\n    filter:\n      url: h.com/c/*\n    strategy:\n      fixed_window:\n        max: 5\n        interval: 10\n        interval_unit: second\n"))
	add("quota: child that is its own parent", okFlow, quota(goodQuota+"internal_limits:\n  - id: C\n    parent_id: C\n    filter:\n      url: h.com/c/*\n    strategy:\n      fixed_window:\n        max: 5\n        interval: 10\n        interval_unit: second\n"))
	child := func(body string) string {
		return goodQuota + "internal_limits:\n  - id: C\n    parent_id: Q\n    filter:\n      url: h.com/c/*\n" + body
	}
	add("quota: valid child (control)", okFlow, quota(child("    strategy:\n      fixed_window:\n        max: 2\n        interval: 10\n        interval_unit: second\n")))
	add("quota: child without a strategy", okFlow, quota(child("")))
	add("quota: child with an unknown interval unit", okFlow, quota(child("    strategy:\n      fixed_window:\n        max: 2\n        interval: 10\n        interval_unit: seconds\n")))
	add("quota: child with a negative max", okFlow, quota(child("    strategy:\n      fixed_window:\n        max: -2\n        interval: 10\n        interval_unit: second\n")))
	add("quota: child with a zero interval", okFlow, quota(child("    strategy:\n      fixed_window:\n        max: 2\n        interval: 0\n        interval_unit: second\n")))
	add("quota: child without an id", okFlow, quota(goodQuota+"internal_limits:\n  - parent_id: Q\n    filter:\n      url: h.com/c/*\n    strategy:\n      fixed_window:\n        max: 2\n        interval: 10\n        interval_unit: second\n"))
	add("quota: child without a filter", okFlow, quota(goodQuota+"internal_limits:\n  - id: C\n    parent_id: Q\n    strategy:\n      fixed_window:\n        max: 2\n        interval: 10\n        interval_unit: second\n"))
	add("quota: child with a larger max than its parent", okFlow, quota(child("    strategy:\n      fixed_window:\n        max: 500\n        interval: 10\n        interval_unit: second\n")))
	add("quota: child limiter flow on the child quota", one(flowWith("f", "h.com/c/*", "  L:\n    processor: Limiter\n    parameters:\n      - key: quota_id\n        value: C\n", f(startTo, "L")+f(condEnd, "L", "below_limit")+f(condEnd, "L", "above_limit"), "")), quota(child("    strategy:\n      fixed_window:\n        max: 2\n        interval: 10\n        interval_unit: second\n")))
	add("quota: percentage allocation above 100", okFlow, quota("quotas:\n  - id: Q\n    filter:\n      url: h.com/*\n    strategy:\n      fixed_window:\n        max: 5\n        interval: 10\n        interval_unit: second\n        group_by_header: x-g\n        allocation:\n          percentage: 150\n"))
	lim3 := func(id, parent, url string) string {
		return "  - id: " + id + "\n    parent_id: " + parent + "\n    filter:\n      url: " + url + "\n    strategy:\n      fixed_window:\n        max: 2\n        interval: 10\n        interval_unit: second\n"
	}
	add("quota: three levels, parents declared first (control)", okFlow, quota(goodQuota+"internal_limits:\n"+lim3("C", "Q", "h.com/c/*")+lim3("G", "C", "h.com/c/g/*")))
	add("quota: three levels, the sub-limit declared before the limit it hangs from", okFlow, quota(goodQuota+"internal_limits:\n"+lim3("G", "C", "h.com/c/g/*")+lim3("C", "Q", "h.com/c/*")))
	add("quota: two internal limits that are each other's parent", okFlow, quota(goodQuota+"internal_limits:\n"+lim3("C", "G", "h.com/c/*")+lim3("G", "C", "h.com/c/g/*")))
	add("quota: three levels out of order with a limiter on the deepest one", one(flowWith("f", "h.com/c/g/*", "  L:\n    processor: Limiter\n    parameters:\n      - key: quota_id\n        value: G\n", f(startTo, "L")+f(condEnd, "L", "below_limit")+f(condEnd, "L", "above_limit"), "")),
		quota(goodQuota+"internal_limits:\n"+lim3("G", "C", "h.com/c/g/*")+lim3("C", "Q", "h.com/c/*")))
	add("quota: not yaml", okFlow, quota("quotas: [unclosed\n"))
	add("quota: empty file", okFlow, quota(""))
	add("quota: unreferenced concurrent quota (system flows) and no user flow", map[string]string{}, quota("quotas:\n  - id: Q\n    filter:\n      url: h.com/*\n    strategy:\n      concurrent:\n        max_request_count: 1\n"))
	return out
}
