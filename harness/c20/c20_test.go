// C20 — diagnosis fail-safe debouncer reacts only to stable changes and never flaps.
// Engine: seqx product enumeration: every boolean observation script up to a length ×
// every setting of (ConsecutiveN, MinStablePeriod, CooldownPeriod) drives the real
// StateChangeWatcher loop inside a synctest bubble (virtual time).
package c20

import (
	"fmt"
	"runtime"
	"strings"
	"testing"
	"testing/synctest"
	"time"

	"lunar/engine/failsafe"
	"lunar/toolkit-core/clock"
	"verifharness/mc"

	"github.com/rs/zerolog"
)

// interval is the check interval of the setting being run
var interval = time.Second

type obs struct {
	at  time.Duration
	val bool
}
type cb struct {
	at       time.Duration
	toTrue   bool
	afterObs int // number of observations made when the callback fired
}

type setting struct {
	N          int
	StableMs   int // minimal stable period
	CooldownMs int
	IntervalMs int // check interval (0 = 1000)
}

func (s setting) interval() time.Duration {
	if s.IntervalMs == 0 {
		return time.Second
	}
	return time.Duration(s.IntervalMs) * time.Millisecond
}
func (s setting) stable() time.Duration   { return time.Duration(s.StableMs) * time.Millisecond }
func (s setting) cooldown() time.Duration { return time.Duration(s.CooldownMs) * time.Millisecond }

type replay struct {
	Script  string  `json:"script"`
	Setting setting `json:"setting"`
}

func runScript(t *testing.T, script []bool, s setting) (observations []obs, callbacks []cb) {
	interval = s.interval()
	synctest.Test(t, func(t *testing.T) {
		start := time.Now()
		i := 0
		cfg := failsafe.Config{
			ObtainPredicate: func() bool {
				if i >= len(script) {
					runtime.Goexit() // script over: end the watcher goroutine
				}
				v := script[i]
				i++
				observations = append(observations, obs{time.Since(start), v})
				return v
			},
			OnChangeToTrue:      func() { callbacks = append(callbacks, cb{time.Since(start), true, len(observations)}) },
			OnChangeToFalse:     func() { callbacks = append(callbacks, cb{time.Since(start), false, len(observations)}) },
			MinTimeBetweenCalls: interval,
			ConsecutiveN:        s.N,
			MinStablePeriod:     s.stable(),
			CooldownPeriod:      s.cooldown(),
		}
		w := failsafe.NewStateChangeWatcher("verif", cfg, clock.NewRealClock(), zerolog.Nop())
		w.RunInBackground()
		synctest.Wait()
		// pump virtual time until the script is consumed (bounded horizon)
		cdSteps := int(s.cooldown()/interval) + 1
		for k := 0; k < 4*(len(script)+2)*(cdSteps+2) && i <= len(script); k++ {
			time.Sleep(interval)
			synctest.Wait()
			if i >= len(script) {
				time.Sleep(interval * time.Duration(cdSteps+2))
				synctest.Wait()
				break
			}
		}
	})
	return
}

// oracle checks the statement on one run; returns "" or the failed clause.
func oracle(observations []obs, callbacks []cb, s setting) string {
	expectTrue := false // first reaction must be "unhealthy" (false)
	var lastFalseAt time.Duration = -1
	for ci, c := range callbacks {
		if c.toTrue != expectTrue {
			return fmt.Sprintf("ALTERNATION reaction #%d is %s, expected %s", ci, name(c.toTrue), name(expectTrue))
		}
		expectTrue = !expectTrue
		// the new state must have been observed for >= N consecutive checks spanning >= stable period
		if c.afterObs == 0 {
			return fmt.Sprintf("UNSTABLE reaction #%d fired before any observation", ci)
		}
		last := c.afterObs - 1
		if observations[last].val != c.toTrue {
			return fmt.Sprintf("UNSTABLE reaction #%d (%s) fired while the latest observation was %s", ci, name(c.toTrue), name(observations[last].val))
		}
		runStart := last
		for runStart > 0 && observations[runStart-1].val == c.toTrue {
			runStart--
		}
		// the initial assumed-healthy state counts as an observation run start only for 'true'
		runLen := last - runStart + 1
		if runLen < s.N {
			return fmt.Sprintf("UNSTABLE reaction #%d (%s) fired after only %d consecutive observations (need %d)", ci, name(c.toTrue), runLen, s.N)
		}
		span := observations[last].at - observations[runStart].at
		if span < s.stable() {
			return fmt.Sprintf("UNSTABLE reaction #%d (%s) fired after the state was stable for %v (need %v)", ci, name(c.toTrue), span, s.stable())
		}
		if lastFalseAt >= 0 && c.at < lastFalseAt+s.cooldown() {
			return fmt.Sprintf("COOLDOWN reaction #%d fired %v after an 'unhealthy' reaction (cool-down %v)", ci, c.at-lastFalseAt, s.cooldown())
		}
		if !c.toTrue {
			lastFalseAt = c.at
		}
	}
	// no observation may be taken during a cool-down either (the watcher is asleep)
	return ""
}

func name(b bool) string {
	if b {
		return "healthy-again"
	}
	return "unhealthy"
}

func scriptString(s []bool) string {
	b := make([]byte, len(s))
	for i, v := range s {
		b[i] = 'F'
		if v {
			b[i] = 'T'
		}
	}
	return string(b)
}

func TestCheck(t *testing.T) {
	r := mc.New("C20", "exploration")
	if f := mc.ReplayFile(); f != "" {
		var rp replay
		if err := mc.LoadReplay(f, &rp); err != nil {
			t.Fatal(err)
		}
		engine := strings.HasPrefix(rp.Script, "engine:")
		rp.Script = strings.TrimPrefix(rp.Script, "engine:")
		script := make([]bool, len(rp.Script))
		for i := range rp.Script {
			script[i] = rp.Script[i] == 'T'
		}
		o, c := runScript(t, script, rp.Setting)
		if engine {
			o, c, _ = runEngineScript(t, script, rp.Setting)
		}
		v := oracle(o, c, rp.Setting)
		fmt.Printf("replay script=%s setting=%+v observations=%v callbacks=%v -> %q\n", rp.Script, rp.Setting, o, c, v)
		if v != "" {
			t.Fail()
		}
		return
	}
	maxLen := mc.Pick(r, 12, 14)
	var settings []setting
	for _, iv := range []int{1000, 2000} {
		for _, n := range []int{1, 2, 3} {
			// stable period: none, one interval, one and a half, two; cool-down: none, one
			// interval, two and a half, three
			for _, st := range []int{0, iv, iv * 3 / 2, 2 * iv} {
				for _, cd := range []int{0, iv, iv * 5 / 2, 3 * iv} {
					settings = append(settings, setting{n, st, cd, iv})
				}
			}
		}
	}
	r.Rule = fmt.Sprintf("every boolean observation script of length 1..%d x check interval in {1 s, 2 s} x ConsecutiveN in {1,2,3} x MinStablePeriod in {0, 1, 1.5, 2} check intervals x CooldownPeriod in {0, 1, 2.5, 3} intervals, run through the real StateChangeWatcher loop in a virtual-time bubble; plus the watcher as the engine builds it (settings from the DIAGNOSIS_FAILSAFE_* variables, health from a scripted statistics page, reactions observed as the reverts of a real policies accessor): scripts to length 7 x 24 settings incl. stable periods that are not multiples of the interval; non-trivial = run with at least one reaction; distinct = (script, setting)", maxLen)
	r.Assume("predicate and callbacks take no virtual time",
		"only-if reading of the statement: a missing reaction is reported as an outcome, not as a violation")
	if r.Parallel(t, 16) {
		r.Finish(t)
		return
	}
	idx := 0
	for l := 1; l <= maxLen; l++ {
		for bits := 0; bits < 1<<l; bits++ {
			idx++
			if !r.Mine(idx) {
				continue
			}
			script := make([]bool, l)
			for i := 0; i < l; i++ {
				script[i] = bits&(1<<i) != 0
			}
			for _, s := range settings {
				o, c := runScript(t, script, s)
				r.Add("evaluations", 1)
				v := oracle(o, c, s)
				if len(o) != len(script) {
					// horizon reached before the script was consumed: not a verdict on the property
					r.Cap(fmt.Sprintf("horizon hit for script %s %+v", scriptString(script), s))
				}
				if len(c) > 0 {
					r.NonTrivial(fmt.Sprintf("%s|%v", scriptString(script), s))
					if l == 8 && bits == 0b11000111 && s.N == 2 {
						r.Sample(map[string]any{"script": scriptString(script), "setting": s, "reactions": fmt.Sprint(c)})
					}
				}
				r.Outcome(fmt.Sprintf("reactions=%d", len(c)))
				if v != "" {
					var clause string
					fmt.Sscanf(v, "%s", &clause)
					r.Violation(clause, fmt.Sprintf("script=%s setting=%+v: %s", scriptString(script), s, v),
						replay{scriptString(script), s})
				}
			}
		}
	}
	engineFamily(t, r, &idx)
	r.Finish(t)
}
