package c20

// Engine-level family: the watcher exactly as the engine builds it
// (failsafe.NewDiagnosisFailsafeStateChangeWatcher: settings from the DIAGNOSIS_FAILSAFE_*
// environment variables, health read from the proxy's statistics page, reactions = revert the
// policies to diagnosis-free / back to the last loaded ones on a real TxnPoliciesAccessor).
// The statistics page and the proxy's admin API are one in-process RoundTripper: the page is
// scripted, the admin calls made by the reactions are what is observed.

import (
	"fmt"
	"io"
	"net/http"
	"os"
	"path/filepath"
	"runtime"
	"strings"
	"testing"
	"testing/synctest"
	"time"

	"lunar/engine/config"
	"lunar/engine/failsafe"
	"lunar/toolkit-core/clock"
	"verifharness/mc"
)

const enginePolicies = `global:
  remedies: []
  diagnosis:
    - name: har
      enabled: true
      config:
        har_exporter:
          transaction_max_size_bytes: 1000
          obfuscate:
            enabled: false
      export: file
endpoints:
  - url: h.com/a
    method: GET
    remedies:
      - name: fixed
        enabled: true
        config:
          fixed_response:
            status_code: 418
    diagnosis: []
`

type engineTransport struct {
	start        time.Time
	script       []bool
	i            int
	observations []obs
	callbacks    []cb
	burstAt      time.Duration
	burst        []string
}

func (e *engineTransport) flush() {
	if len(e.burst) == 0 {
		return
	}
	all := strings.Join(e.burst, " ")
	// going diagnosis-free switches "manage all" off; coming back switches it on again
	switch {
	case strings.Contains(all, "DELETE /unmanage_global"):
		e.callbacks = append(e.callbacks, cb{e.burstAt, false, len(e.observations)})
	case strings.Contains(all, "PUT /manage_all"):
		e.callbacks = append(e.callbacks, cb{e.burstAt, true, len(e.observations)})
	}
	e.burst = nil
}

func (e *engineTransport) RoundTrip(rq *http.Request) (*http.Response, error) {
	if rq.Body != nil {
		io.Copy(io.Discard, rq.Body)
		rq.Body.Close()
	}
	ok := func(body string) (*http.Response, error) {
		return &http.Response{StatusCode: 200, Body: io.NopCloser(strings.NewReader(body)), Header: http.Header{}, Request: rq}, nil
	}
	if strings.HasPrefix(rq.URL.Path, "/metrics") {
		e.flush()
		if e.i >= len(e.script) {
			runtime.Goexit() // script over: end the watcher goroutine
		}
		v := e.script[e.i]
		e.i++
		e.observations = append(e.observations, obs{time.Since(e.start), v})
		rate := 3
		if v {
			rate = 0
		}
		return ok(fmt.Sprintf("# pxname,svname,rate,lastsess\nlunar,BACKEND,%d,100\n", rate))
	}
	if len(e.burst) == 0 {
		e.burstAt = time.Since(e.start)
	}
	e.burst = append(e.burst, rq.Method+" "+rq.URL.Path)
	return ok("OK")
}

func runEngineScript(t *testing.T, script []bool, s setting) (observations []obs, callbacks []cb, err string) {
	interval = s.interval()
	synctest.Test(t, func(t *testing.T) {
		dir, _ := os.MkdirTemp(mc.WorkDir(), "c20-eng-")
		defer os.RemoveAll(dir)
		os.Setenv("LUNAR_PROXY_CONFIG_DIR", dir)
		os.Setenv("LUNAR_PROXY_POLICIES_CONFIG", filepath.Join(dir, "policies.yaml"))
		os.WriteFile(filepath.Join(dir, "policies.yaml"), []byte(enginePolicies), 0o644)
		os.Setenv("DIAGNOSIS_FAILSAFE_MIN_SEC_BETWEEN_CALLS", fmt.Sprint(s.IntervalMs/1000))
		os.Setenv("DIAGNOSIS_FAILSAFE_CONSECUTIVE_N", fmt.Sprint(s.N))
		os.Setenv("DIAGNOSIS_FAILSAFE_MIN_STABLE_SEC", fmt.Sprint(s.StableMs/1000))
		os.Setenv("DIAGNOSIS_FAILSAFE_COOLDOWN_SEC", fmt.Sprint(s.CooldownMs/1000))
		os.Setenv("DIAGNOSIS_FAILSAFE_HEALTHY_SESSION_RATE", "0")
		os.Setenv("DIAGNOSIS_FAILSAFE_HEALTHY_MAX_LAST_SESSION_SEC", "5")
		tr := &engineTransport{start: time.Now(), script: script}
		http.DefaultClient.Transport = tr
		br, berr := config.BuildInitialFromFile()
		if berr != nil {
			err = "BuildInitialFromFile: " + berr.Error()
			return
		}
		tr.burst = nil // the initial registration is not a reaction
		defer func() {
			config.VerifStopVacuums(br.Accessor)
			time.Sleep(3 * time.Minute)
			synctest.Wait()
		}()
		w, werr := failsafe.NewDiagnosisFailsafeStateChangeWatcher(br.Accessor, clock.NewRealClock())
		if werr != nil {
			err = "constructor: " + werr.Error()
			return
		}
		w.RunInBackground()
		synctest.Wait()
		cdSteps := int(s.cooldown()/interval) + 1
		for k := 0; k < 4*(len(script)+2)*(cdSteps+2) && tr.i <= len(script); k++ {
			time.Sleep(interval)
			synctest.Wait()
			if tr.i >= len(script) {
				time.Sleep(interval * time.Duration(cdSteps+2))
				synctest.Wait()
				break
			}
		}
		tr.flush()
		observations, callbacks = tr.observations, tr.callbacks
	})
	return
}

func engineFamily(t *testing.T, r *mc.Run, idx *int) {
	var settings []setting
	for _, iv := range []int{1000, 3000, 4000} {
		for _, n := range []int{1, 2} {
			// stable periods that are and are not multiples of the interval
			for _, st := range []int{0, iv, iv + 1000, 2*iv + 1000} {
				settings = append(settings, setting{n, st, iv, iv})
			}
		}
	}
	maxLen := mc.Pick(r, 7, 9)
	for l := 1; l <= maxLen; l++ {
		for bits := 0; bits < 1<<l; bits++ {
			*idx++
			if !r.Mine(*idx) {
				continue
			}
			script := make([]bool, l)
			for i := 0; i < l; i++ {
				script[i] = bits&(1<<i) != 0
			}
			for _, s := range settings {
				o, c, err := runEngineScript(t, script, s)
				r.Add("evaluations", 1)
				r.Add("engine_level_runs", 1)
				if err != "" {
					r.Violation("ENGINE-SETUP", err, replay{scriptString(script), s})
					return
				}
				v := oracle(o, c, s)
				if len(c) > 0 {
					r.NonTrivial(fmt.Sprintf("engine|%s|%v", scriptString(script), s))
				}
				r.Outcome(fmt.Sprintf("engine reactions=%d", len(c)))
				if v != "" {
					var clause string
					fmt.Sscanf(v, "%s", &clause)
					r.Violation(clause+":engine", fmt.Sprintf("engine's watcher (settings from the environment) script=%s setting=%+v: %s", scriptString(script), s, v),
						replay{"engine:" + scriptString(script), s})
				}
			}
		}
	}
}
