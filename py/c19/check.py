#!/usr/bin/env python3
"""C19 — Python interceptor fail-safe / traffic filter.

Explicit-state breadth-first search over call histories driving the REAL interceptor code
(lunar_interceptor FailSafe wired exactly as the package's __init__ does, through the
real `requests` hook closure `_request`), with time patched and third-party modules that
are not installed (yarl, multidict, requests, aiohttp, tornado) replaced by minimal stubs;
plus a full product enumeration of allow/block lists x destinations for TrafficFilter.

exit 0 = property held on everything explored; exit 1 + VIOLATION line otherwise.
"""
import collections
import hashlib
import importlib
import ipaddress
import json
import logging
import os
import sys
import time as _time
import types

T0 = _time.time()
VERIF = "/verif"
SRC = "/repo/interceptors/lunar-py-interceptor/lunar_interceptor/src"
TIER = "thorough" if os.environ.get("VERIF_TIER") == "thorough" else "quick"
SEED = int(os.environ.get("VERIF_SEED", "0") or 0)
PROXY_HOST = "lunar-proxy.test"


# ---------------------------------------------------------------------------- stubs
class URL:
    """Minimal stand-in for yarl.URL (only what the interceptor touches)."""

    def __init__(self, s, _parts=None):
        if _parts is not None:
            self.scheme, self.host, self.port, self.rest = _parts
            return
        s = str(s)
        self.scheme, _, rest = s.partition("://")
        hostport, slash, path = rest.partition("/")
        self.rest = slash + path
        if hostport.startswith("["):  # [::1]:80
            h, _, p = hostport[1:].partition("]")
            self.host, self.port = h, int(p[1:]) if p.startswith(":") else None
        elif hostport.count(":") == 1:
            h, _, p = hostport.partition(":")
            self.host, self.port = h, int(p)
        else:
            self.host, self.port = hostport or None, None

    def is_default_port(self):
        return self.port is None or (self.scheme, self.port) in (("http", 80), ("https", 443))

    def with_scheme(self, s):
        return URL(None, (s, self.host, self.port, self.rest))

    def with_host(self, h):
        return URL(None, (self.scheme, h, self.port, self.rest))

    def with_port(self, p):
        return URL(None, (self.scheme, self.host, p, self.rest))

    def __str__(self):
        hp = self.host if self.port is None else f"{self.host}:{self.port}"
        return f"{self.scheme}://{hp}{self.rest}"


class FakeConnectionError(Exception):
    pass


class CaseInsensitiveDict(dict):
    def copy(self):
        return CaseInsensitiveDict(self)


class FakeResponse:
    def __init__(self, status, headers, via):
        self.status_code, self.headers, self.via, self.content = status, CaseInsensitiveDict(headers), via, b"{}"


class FakeSession:
    # the hook patches Session.request; the original is the scripted transport below
    script = None  # type: ignore

    def request(self, method, url, *args, **kwargs):
        return FakeSession.script(self, method, url, *args, **kwargs)


def install_stubs():
    yarl = types.ModuleType("yarl")
    yarl.URL = URL
    sys.modules["yarl"] = yarl
    md = types.ModuleType("multidict")
    md.CIMultiDictProxy = dict
    md.CIMultiDict = dict
    sys.modules["multidict"] = md
    rq = types.ModuleType("requests")
    rq.ConnectionError = FakeConnectionError
    rq.Session = FakeSession
    rq.Response = FakeResponse
    models = types.ModuleType("requests.models")
    models.CaseInsensitiveDict = CaseInsensitiveDict
    sessions = types.ModuleType("requests.sessions")
    sessions.Session = FakeSession
    rq.models, rq.sessions = models, sessions
    rq.get = lambda *a, **k: FakeResponse(200, {}, "handshake")
    sys.modules["requests"] = rq
    sys.modules["requests.models"] = models
    sys.modules["requests.sessions"] = sessions
    # aiohttp / tornado: the hooks guard these imports themselves (ImportError -> unsupported)


# ---------------------------------------------------------------------------- bookkeeping
class Run:
    def __init__(self):
        self.counters = collections.Counter()
        self.outcomes = collections.Counter()
        self.nontrivial = set()
        self.samples = []
        self.findings = {}
        self.exhaustive = True
        self.caps = []

    def violation(self, key, what, replay):
        if key in self.findings:
            self.findings[key]["count"] += 1
        else:
            self.findings[key] = {"key": key, "what": what, "replay": replay, "count": 1}

    def finish(self):
        known = {}
        try:
            for e in json.load(open(f"{VERIF}/known_findings.json"))["findings"]:
                if e["property"] == "C19" and e["status"] == "known":
                    known[e["key"]] = e
        except Exception:
            pass
        lines, nviol, reproduced = [], 0, []
        for k in sorted(self.findings):
            f = self.findings[k]
            if k in known:
                reproduced.append(k)
                lines.append(f"KNOWN-FINDING: property=C19 {k} ({f['what'][:300]}; {f['count']} occurrence(s))")
                continue
            nviol += 1
            os.makedirs(f"{VERIF}/replays", exist_ok=True)
            path = f"{VERIF}/replays/C19-{hashlib.sha1(k.encode()).hexdigest()[:12]}.json"
            json.dump({"property": "C19", "key": k, "what": f["what"], "occurrences": f["count"], "replay": f["replay"]}, open(path, "w"), indent=1)
            print(f"# {k}: {f['what'][:400]}")
            lines.append(f"VIOLATION property=C19 replay={path}")
        cov = dict(self.counters)
        cov.update({
            "states": self.counters["states"], "transitions": self.counters["transitions"],
            "traces_validated_against_impl": self.counters["transitions"],
            "evaluations": self.counters["transitions"] + self.counters["filter_cases"],
            "distinct_nontrivial": len(self.nontrivial), "distinct_outcomes": len(self.outcomes),
            "outcomes": dict(self.outcomes),
            "rule": RULE, "samples": self.samples[:5], "exhaustive": self.exhaustive,
        })
        if self.caps:
            cov["caps_hit"] = self.caps
        if reproduced:
            cov["known_findings_reproduced"] = reproduced
        ev = {"property_id": "C19", "tier": TIER, "seed": SEED, "level": "model_checking", "coverage": cov,
              "assumptions": ["third-party modules yarl/multidict/requests are replaced by minimal stubs (not installed, cannot be installed)",
                              "DNS answers come from a fixed table (syntactically invalid names go to the real resolver, which fails before any network access)",
                              "after a cool-down ended, until the next gateway success, both 'one failure re-opens' and 'a fresh run of failures is needed' are accepted"],
              "wall_s": _time.time() - T0, "violations": nviol}
        os.makedirs(f"{VERIF}/evidence", exist_ok=True)
        json.dump(ev, open(f"{VERIF}/evidence/C19.json", "w"), indent=1)
        for l in lines:
            print(l)
        print(f"C19 tier={TIER} states={self.counters['states']} transitions={self.counters['transitions']} filter_cases={self.counters['filter_cases']} "
              f"outcomes={len(self.outcomes)} nontrivial={len(self.nontrivial)} exhaustive={self.exhaustive} wall={_time.time()-T0:.1f}s")
        sys.exit(1 if nviol else 0)


RULE = ""


# ---------------------------------------------------------------------------- part A: fail-safe
class Clock:
    now = 1000.0


def build(threshold, cooldown):
    """Fresh interceptor core wired like lunar_interceptor/__init__.py does it."""
    os.environ["LUNAR_ENTER_COOLDOWN_AFTER_ATTEMPTS"] = str(threshold)
    os.environ["LUNAR_EXIT_COOLDOWN_AFTER_SEC"] = str(cooldown)
    os.environ.pop("LUNAR_PROXY_HOST", None)
    os.environ.pop("LUNAR_ALLOW_LIST", None)
    os.environ.pop("LUNAR_BLOCK_LIST", None)
    import lunar_interceptor.interceptor.configuration as configuration
    importlib.reload(configuration)  # dataclass defaults read the environment at import time
    import lunar_interceptor.interceptor.fail_safe as fail_safe
    import lunar_interceptor.interceptor.traffic_filter as traffic_filter
    import lunar_interceptor.interceptor.hooks.requests as rhook
    fail_safe.time = lambda: Clock.now
    rhook.sleep = lambda s: None  # waiting before a retry the gateway asked for costs no time here
    traffic_filter.gethostbyname = lambda h: {"api.public.test": "93.184.216.34"}[h]
    logger = logging.getLogger("verif-c19")
    logger.disabled = True
    cfg = configuration.FailSafeConfig()
    # the two lines of lunar_interceptor._load_fail_safe():
    fs = fail_safe.FailSafe(cooldown_time=cfg.cooldown_time, max_errors_allowed=cfg.max_errors,
                            logger=logger, handle_on=(fail_safe.ProxyErrorException,))
    tf = traffic_filter.TrafficFilter(None, None, logger)
    conn = configuration.ConnectionConfig(is_valid=True, proxy_host=PROXY_HOST, proxy_port=8000, proxy_scheme="http",
                                          proxy_url=f"http://{PROXY_HOST}:8000", proxy_host_with_port=f"{PROXY_HOST}:8000")
    hook = rhook.RequestsHook(logger=logger, fail_safe=fs, traffic_filter=tf, lunar_proxy_configuration=conn)
    return fs, hook._hook_module()


# gw_retry_then_ok / gw_retry_then_header_error: the gateway first answers "retry this call"
# (x-lunar-retry-after + x-lunar-sequence-id); the second attempt of the same call then succeeds /
# comes back with x-lunar-error (a gateway-side failure of this call)
EVENTS = ["ok", "gw_conn_error", "gw_header_error", "app_exception_via_gateway", "app_exception_direct_only",
          "gw_retry_then_ok", "gw_retry_then_header_error"]


class AppError(Exception):
    pass


class Model:
    """Real interceptor + reference envelope."""

    def __init__(self, threshold, cooldown):
        Clock.now = 1000.0
        self.threshold, self.cooldown = threshold, cooldown
        self.fs, self.request = build(threshold, cooldown)
        # reference: consecutive gateway failures since the last gateway success
        self.hi = 0            # never reset by a cool-down
        self.lo = 0            # reset when a cool-down ends
        self.last_fail = None
        self.ever_gateway = 0

    def tick(self, d):
        Clock.now += d
        return ""

    def call(self, outcome):
        attempts = []

        def transport(session, method, url, *a, **k):
            via = "gateway" if PROXY_HOST in url else "direct"
            attempts.append(via)
            if via == "gateway":
                if outcome in ("gw_retry_then_ok", "gw_retry_then_header_error"):
                    if attempts.count("gateway") == 1:
                        return FakeResponse(200, {"x-lunar-retry-after": "0", "x-lunar-sequence-id": "seq-1"}, via)
                    if outcome == "gw_retry_then_header_error":
                        return FakeResponse(503, {"x-lunar-error": "2"}, via)
                    return FakeResponse(200, {}, via)
                if outcome == "gw_conn_error":
                    raise FakeConnectionError("proxy unreachable")
                if outcome == "gw_header_error":
                    return FakeResponse(503, {"x-lunar-error": "2"}, via)
                if outcome == "app_exception_via_gateway":
                    raise AppError("raised by application code while going through the gateway")
                return FakeResponse(200, {}, via)
            if outcome == "app_exception_direct_only":
                raise AppError("provider call failed")
            return FakeResponse(200, {}, via)

        FakeSession.script = transport
        import lunar_interceptor.interceptor.hooks.requests as rhook
        rhook_self_original = None
        now = Clock.now
        in_cool = self.last_fail is not None and (now - self.last_fail) < self.cooldown
        must_bypass = in_cool and self.lo >= self.threshold
        may_bypass = in_cool and self.hi >= self.threshold
        if not in_cool and self.last_fail is not None and self.hi >= self.threshold:
            self.lo = 0  # cool-down over: the breaker closes; lo restarts
        raised = None
        resp = None
        try:
            # the closure stored `requests.Session.request` at construction = FakeSession.request
            resp = self.request(FakeSession(), "GET", "https://api.public.test/v1/x", headers={})
        except BaseException as e:  # noqa
            raised = e
        used_gateway = "gateway" in attempts
        desc = f"call({outcome}) at t+{now-1000:g}s attempts={attempts} raised={type(raised).__name__ if raised else None}"
        # routing envelope
        if used_gateway and must_bypass:
            return f"NOT-BYPASSED {desc}: {self.lo} consecutive gateway failures (threshold {self.threshold}), last {now-self.last_fail:g}s ago (cool-down {self.cooldown}s) - the gateway must not be tried"
        if not used_gateway and not may_bypass:
            return f"BYPASSED-WITHOUT-CAUSE {desc}: only {self.hi} consecutive gateway failures (threshold {self.threshold}) or cool-down over"
        # error handling
        if used_gateway:
            self.ever_gateway += 1
            if outcome in ("gw_conn_error", "gw_header_error", "gw_retry_then_header_error"):
                self.hi += 1
                self.lo += 1
                self.last_fail = now
                if raised is not None:
                    return f"GATEWAY-ERROR-LEAKED {desc}: a gateway-side failure was raised into the application"
                if attempts != ["gateway", "direct"] and not (outcome == "gw_retry_then_header_error" and attempts == ["gateway", "gateway", "direct"]):
                    return f"NO-FALLBACK {desc}: after a gateway-side failure the call must be sent directly to the provider"
            elif outcome == "app_exception_via_gateway":
                if not isinstance(raised, AppError):
                    return f"APP-ERROR-SWALLOWED {desc}: an error that does not come from the gateway was not propagated"
            else:
                self.hi = 0
                self.lo = 0
                if raised is not None:
                    return f"UNEXPECTED-ERROR {desc}: {raised!r}"
                if outcome == "app_exception_direct_only" and attempts != ["gateway"]:
                    return f"UNEXPECTED-ROUTE {desc}"
                if outcome == "gw_retry_then_ok" and attempts != ["gateway", "gateway"]:
                    return f"RETRY-NOT-FOLLOWED {desc}: the gateway asked for a retry of the call"
        else:
            # bypassed: direct call only
            if outcome == "app_exception_direct_only":
                if not isinstance(raised, AppError):
                    return f"APP-ERROR-SWALLOWED {desc}: the provider call's own exception was not propagated"
            elif raised is not None:
                return f"UNEXPECTED-ERROR {desc}: {raised!r}"
            # (a by-passed call does not shorten the cool-down: lo restarts only when the
            # cool-down has ended, above)
        return ""

    def key(self):
        age = None if self.last_fail is None else min(Clock.now - self.last_fail, self.cooldown + 1)
        return (self.fs._state_ok, min(self.fs._error_counter, self.threshold + 2),
                None if self.fs._state_ok else min(Clock.now - self.fs._cooldown_started_at, self.cooldown + 1),
                min(self.hi, self.threshold + 2), min(self.lo, self.threshold + 2), age)


def failsafe_bfs(run):
    depth = 8 if TIER == "quick" else 10
    for threshold in (1, 2, 3):
        for cooldown in (1, 2):
            ticks = sorted({cooldown - 1, 1, cooldown} - {0})
            alphabet = [("call", e) for e in EVENTS] + [("tick", d) for d in ticks]

            def replay(path):
                m = Model(threshold, cooldown)
                fail = ""
                for ev in path:
                    fail = m.tick(ev[1]) if ev[0] == "tick" else m.call(ev[1])
                    if fail:
                        break
                return m, fail

            m0, _ = replay([])
            seen = {m0.key()}
            frontier = [[]]
            for d in range(depth):
                nxt = []
                for path in frontier:
                    for ev in alphabet:
                        p = path + [ev]
                        m, fail = replay(p)
                        run.counters["transitions"] += 1
                        if fail:
                            clause = fail.split(" ", 1)[0]
                            run.violation(clause, f"threshold={threshold} cooldown={cooldown}s history={p}: {fail}",
                                          {"threshold": threshold, "cooldown": cooldown, "history": p})
                            continue
                        run.outcomes[f"state_ok={m.fs._state_ok}"] += 1
                        k = m.key()
                        if k not in seen:
                            seen.add(k)
                            nxt.append(p)
                            if not m.fs._state_ok:
                                run.nontrivial.add((threshold, cooldown, k))
                frontier = nxt
                if not frontier:
                    break
            run.counters["states"] += len(seen)
            run.samples.append({"threshold": threshold, "cooldown_s": cooldown, "states": len(seen),
                                "example_history": "gw_conn_error x threshold, tick(cooldown-1), call -> direct, tick(1), call -> gateway"})


# ---------------------------------------------------------------------------- part B: traffic filter
DNS = {
    "api.public.test": "93.184.216.34", "intranet.test": "10.1.2.3", "loop.test": "127.0.0.5",
    "docker.test": "172.17.0.2", "edge172.test": "172.31.255.254", "out172.test": "172.32.0.1",
    "lan.test": "192.168.1.10", "zero.test": "0.0.0.0",
}
DESTS = list(DNS) + ["93.184.216.34", "10.0.0.1", "127.0.0.1", "172.16.0.1", "172.20.1.1", "172.31.0.9", "172.32.0.1", "172.15.255.255",
                     "192.168.0.1", "192.169.0.1", "0.0.0.0", "::1", "fe80::1", "2001:db8::1", "unresolvable.test", "a..b", "", "localhost."]
LISTS = [None, "", "api.public.test", "93.184.216.34", "intranet.test", "10.0.0.1", "not a host!", "api.public.test,10.0.0.1", "api.public.test,bad host"]


def private_or_loopback(ip):
    try:
        a = ipaddress.ip_address(ip)
    except ValueError:
        return None
    return a.is_private or a.is_loopback or a.is_unspecified or a.is_link_local


def traffic_filter_product(run):
    import socket
    import lunar_interceptor.interceptor.traffic_filter as traffic_filter
    import lunar_interceptor.interceptor.configuration as configuration

    def fake_resolve(host):
        if host in DNS:
            return DNS[host]
        if host == "unresolvable.test" or host == "localhost.":
            raise socket.gaierror(-2, "Name or service not known")
        # syntactically invalid names: let the real resolver reject them (no network involved)
        return socket.gethostbyname(host)

    traffic_filter.gethostbyname = fake_resolve
    logger = logging.getLogger("verif-c19")
    logger.disabled = True
    for allow in LISTS:
        for block in LISTS:
            try:
                # the lists reach the filter the way the package wires them: through the two
                # environment variables and the configuration loader (lunar_interceptor/__init__.py:
                # _build_traffic_filter_from_env_vars)
                for var, val in (("LUNAR_ALLOW_LIST", allow), ("LUNAR_BLOCK_LIST", block)):
                    if val is None:
                        os.environ.pop(var, None)
                    else:
                        os.environ[var] = val
                os.environ["LUNAR_PROXY_HOST"] = f"{PROXY_HOST}:8000"
                importlib.reload(configuration)
                icfg = configuration.get_interceptor_config(logger)
                tf = traffic_filter.TrafficFilter(icfg.traffic_filter.block_list, icfg.traffic_filter.allow_list, logger)
            except BaseException as e:  # noqa
                run.violation("FILTER-CONSTRUCTOR-RAISED", f"TrafficFilter(block={block!r}, allow={allow!r}) raised {e!r}", {"allow": allow, "block": block})
                continue
            allow_items = [x for x in (allow or "").split(",") if x]
            block_items = [x for x in (block or "").split(",") if x]
            for dest in DESTS:
                for hdrs in (None, {}, {"x-lunar-allow": "false"}):
                    run.counters["filter_cases"] += 1
                    case = {"allow_list": allow, "block_list": block, "destination": dest, "headers": hdrs}
                    try:
                        res = tf.is_allowed(dest, dict(hdrs) if hdrs is not None else None)
                    except BaseException as e:  # noqa
                        kind = "ipv6-literal" if ":" in dest else ("invalid-hostname" if dest in ("a..b", "") else "other")
                        run.violation(f"IS-ALLOWED-RAISED:{kind}", f"is_allowed({dest!r}) with allow={allow!r} block={block!r} raised {type(e).__name__}: {e}", case)
                        run.outcomes["raised"] += 1
                        continue
                    run.outcomes[f"allowed={res}"] += 1
                    if not res:
                        continue
                    run.nontrivial.add(("tf", allow, block, dest, str(hdrs)))
                    if hdrs and hdrs.get("x-lunar-allow") == "false":
                        run.violation("ROUTED-DESPITE-HEADER", f"is_allowed({dest!r}) returned True although the caller opted out with x-lunar-allow=false", case)
                    # excluded by the lists
                    if allow_items and dest not in allow_items:
                        run.violation("ROUTED-NOT-IN-ALLOW-LIST", f"{dest!r} routed through the gateway although the allow list is {allow!r}", case)
                    if not allow_items and dest in block_items:
                        run.violation("ROUTED-ALTHOUGH-BLOCKED", f"{dest!r} routed through the gateway although it is in the block list {block!r}", case)
                    # loopback / private (only decided by the filter when no allow list names the destination)
                    if not allow_items:
                        ip = DNS.get(dest, dest)
                        p = private_or_loopback(ip)
                        if p is None and dest not in DNS:
                            run.violation("ROUTED-UNRESOLVABLE", f"{dest!r} does not resolve but was routed through the gateway", case)
                        elif p:
                            run.violation("ROUTED-PRIVATE", f"{dest!r} ({ip}) is loopback/private but was routed through the gateway", case)
    run.samples.append({"traffic_filter_case": {"allow_list": "api.public.test", "block_list": None, "destination": "docker.test -> 172.17.0.2"}})


def main():
    global RULE
    sys.path.insert(0, SRC)
    install_stubs()
    logging.disable(logging.CRITICAL)
    run = Run()
    depth = 8 if TIER == "quick" else 10
    RULE = (f"explicit-state BFS to depth {depth} over histories of calls through the real requests-hook closure with scripted outcomes "
            f"{EVENTS} and clock steps, for thresholds 1-3 x cool-downs 1-2 s (fail-safe built through FailSafeConfig from the two environment "
            f"variables exactly as the package does); plus the full product of {len(LISTS)}x{len(LISTS)} allow/block lists x {len(DESTS)} destinations x 3 header variants "
            f"for TrafficFilter.is_allowed; non-trivial = states with the breaker open / destinations the filter lets through")
    replay = os.environ.get("VERIF_REPLAY")
    if replay:
        r = json.load(open(replay))["replay"]
        if "history" in r:
            m = Model(r["threshold"], r["cooldown"])
            for ev in r["history"]:
                f = m.tick(ev[1]) if ev[0] == "tick" else m.call(ev[1])
                print(ev, "->", repr(f), m.key())
                if f:
                    sys.exit(1)
        else:
            import lunar_interceptor.interceptor.traffic_filter as traffic_filter
            lg = logging.getLogger("x")
            tf = traffic_filter.TrafficFilter(r["block_list"], r["allow_list"], lg)
            print("is_allowed ->", tf.is_allowed(r["destination"], r["headers"]))
        sys.exit(0)
    failsafe_bfs(run)
    traffic_filter_product(run)
    run.finish()


if __name__ == "__main__":
    main()
